//! A second live group ("side group" S) shared by some of the world's clients, so that the
//! clauses about *other* groups can be judged on the same MDK instances: events of one group
//! never touch the other, an event is stored in the group whose current Nostr group id it
//! carries, an event re-tagged with the other group's id is refused without effect, and a
//! client that is in only one of the two groups learns nothing from the other's events.
//!
//! The side group is deliberately calm (one committer that merges at once, every event handed
//! to every side member immediately), so every expectation below is unconditional: anything
//! that goes wrong here is caused by the *other* group's traffic or by cross-group confusion.

use super::*;
use crate::on_mdk;

#[derive(Clone, Debug, PartialEq, Eq, Hash, Serialize, Deserialize)]
pub enum SideOp {
    /// application message in S by a side member, handed to all side members (echo included)
    Msg { m: u16, ts: u8 },
    /// a member of both groups posts a rumor it already sent to the main group into S as well
    /// (same author, content, timestamp - hence the same message id in both groups)
    CrossPost { m: u16 },
    /// commit in S by its creator (0 self-update, 1 rename, 2 Nostr-group-id rotation, 3 relay
    /// change), merged at once, handed to all side members
    Commit { kind: u8, ts: u8 },
    /// an S event handed to a main-group member that is not in S
    ToNonMember { m: u16, sel: u16 },
    /// an S event re-tagged with the main group's Nostr group id, handed to main member `v`
    TaggedAsMain { v: u16, sel: u16 },
    /// a main-group event re-tagged with S's Nostr group id, handed to `v`
    MainTaggedAsSide { v: u16, sel: u16 },
    /// a main-group event handed to the client that is in S only
    MainToSideOnly { sel: u16 },
}

#[derive(Clone, Debug)]
pub struct SideEvent {
    pub ev: Event,
    pub author: usize,
    /// (rumor id, content) for application messages
    pub app: Option<(String, String)>,
    pub what: String,
}

pub struct SideGroup {
    pub gid: GroupId,
    pub creator: usize,
    /// clients in S (main-group clients and possibly one client that is in S only)
    pub members: Vec<usize>,
    pub side_only: Option<usize>,
    pub events: Vec<SideEvent>,
    /// how many side events each member has been given (a member that missed one is no longer
    /// expected to be able to process later ones)
    pub seen: HashMap<usize, usize>,
    pub checks: u64,
    /// contents of main-group messages that were posted into S as well
    pub crossposted: HashSet<String>,
}

fn is_failure(o: &Outcome) -> bool {
    o.is_failure_class()
}

impl World {
    /// Build S according to `setup.side` (0 = none). Bits 0..6 select main-group clients, bit 7
    /// adds the last spare as a member of S only.
    pub(super) fn setup_side(&mut self) -> Result<(), String> {
        let mask = self.setup.side;
        if mask == 0 {
            return Ok(());
        }
        let twin_subject = self.twin.map(|(k, _)| k);
        let mut members: Vec<usize> = (0..self.n_members.min(7))
            .filter(|i| mask & (1 << i) != 0 && Some(*i) != twin_subject)
            .collect();
        let side_only = if mask & 0x80 != 0 && self.end_spare > self.first_spare {
            Some(self.end_spare - 1)
        } else {
            None
        };
        if members.is_empty() {
            members.push(0);
        }
        if members.len() + side_only.iter().count() < 2 {
            match (0..self.n_members).find(|i| !members.contains(i) && Some(*i) != twin_subject) {
                Some(i) => members.push(i),
                None => {
                    self.count("side:not-enough-clients");
                    return Ok(());
                }
            }
            members.sort();
        }
        if let Some(s) = side_only {
            members.push(s);
        }
        let creator = members[0];
        let mut kps = vec![];
        for &i in members.iter().skip(1) {
            kps.push(Self::make_key_package(&self.clients[i])?);
        }
        let cpk = self.clients[creator].keys.public_key();
        let config = NostrGroupConfigData::new(
            "side group".to_string(),
            "the other group".to_string(),
            None,
            None,
            None,
            vec![relay_url(3)],
            vec![cpk],
        );
        let res = on_mdk!(self.clients[creator].mdk(), m => m.create_group(&cpk, kps, config))
            .map_err(|e| format!("side create_group: {e}"))?;
        let gid = res.group.mls_group_id.clone();
        for (k, rumor) in res.welcome_rumors.iter().enumerate() {
            let to = members[k + 1];
            let wrapper = self.next_wrapper_id();
            let c = &self.clients[to];
            let w = on_mdk!(c.mdk(), m => m.process_welcome(&wrapper, rumor))
                .map_err(|e| format!("side process_welcome: {e}"))?;
            on_mdk!(c.mdk(), m => m.accept_welcome(&w)).map_err(|e| format!("side accept_welcome: {e}"))?;
        }
        if let Some(s) = side_only {
            // this spare is never invited to the main group
            self.invited.insert(s);
        }
        self.extra_gids.push(gid.clone());
        self.note(format!(
            "side group: creator c{creator}, members {:?}{}",
            members,
            side_only.map(|s| format!(" (c{s} is in the side group only)")).unwrap_or_default()
        ));
        self.count("side:worlds");
        self.side = Some(SideGroup {
            gid,
            creator,
            members,
            side_only,
            events: vec![],
            seen: HashMap::new(),
            checks: 0,
            crossposted: HashSet::new(),
        });
        Ok(())
    }

    fn side_record_hex(&self, at: usize) -> Option<String> {
        let gid = self.side.as_ref()?.gid.clone();
        let m = self.clients[at].mdk.as_ref()?;
        on_mdk!(m, mm => mm.get_group(&gid)).ok().flatten().map(|g| hex::encode(g.nostr_group_id))
    }

    fn main_record_hex(&self, at: usize) -> Option<String> {
        let gid = self.gid.clone();
        let m = self.clients[at].mdk.as_ref()?;
        on_mdk!(m, mm => mm.get_group(&gid)).ok().flatten().map(|g| hex::encode(g.nostr_group_id))
    }

    fn side_active_at(&self, i: usize) -> bool {
        let Some(s) = self.side.as_ref() else { return false };
        let Some(m) = self.clients[i].mdk.as_ref() else { return false };
        on_mdk!(m, mm => mm.get_group(&s.gid)).ok().flatten().map(|g| g.state) == Some(GroupState::Active)
    }

    fn side_in_sync(&self, i: usize) -> bool {
        let s = self.side.as_ref().expect("side group");
        s.seen.get(&i).copied().unwrap_or(0) == s.events.len()
    }

    fn raw_process(&mut self, c: usize, ev: &Event) -> Outcome {
        mdk_core::verif::set_wrapper_created_at(Some(self.t0 + (self.step as u64 % 6)));
        let r = catch_unwind(AssertUnwindSafe(|| on_mdk!(self.clients[c].mdk(), mm => mm.process_message(ev))));
        mdk_core::verif::set_wrapper_created_at(None);
        if let Some(sink) = self.leak_sink.as_mut() {
            match &r {
                Ok(Ok(res)) => sink.push(format!("{res:?}")),
                Ok(Err(e)) => {
                    sink.push(format!("{e}"));
                    sink.push(format!("{e:?}"));
                }
                Err(_) => {}
            }
        }
        match r {
            Ok(Ok(res)) => match res {
                MessageProcessingResult::ApplicationMessage(msg) => Outcome::App(msg.id.to_hex()),
                MessageProcessingResult::Commit { .. } => Outcome::Commit,
                MessageProcessingResult::Proposal(_) => Outcome::AutoCommit,
                MessageProcessingResult::PendingProposal { .. } => Outcome::PendingProposal,
                MessageProcessingResult::IgnoredProposal { .. } => Outcome::Ignored,
                MessageProcessingResult::ExternalJoinProposal { .. } => Outcome::ExternalJoin,
                MessageProcessingResult::Unprocessable { .. } => Outcome::Unprocessable,
                MessageProcessingResult::PreviouslyFailed => Outcome::PreviouslyFailed,
            },
            Ok(Err(e)) => Outcome::Err(e.to_string()),
            Err(p) => Outcome::Panic(panic_text(p)),
        }
    }

    fn outcome_text(o: &Outcome) -> String {
        match o {
            Outcome::Err(e) => format!("err: {e}"),
            Outcome::Panic(p) => format!("panic: {p}"),
            o => o.tag().to_string(),
        }
    }

    /// Hand side event `sidx` to side member `c`. The main group at `c` must not change; when
    /// `c` has seen every earlier side event the event must take effect *in S*.
    fn side_process(&mut self, c: usize, sidx: usize, obs: &mut dyn Observer) -> Result<(), Failure> {
        if self.clients[c].mdk.is_none() {
            return Ok(());
        }
        let (ev, author, app, what) = {
            let e = &self.side.as_ref().expect("side").events[sidx];
            (e.ev.clone(), e.author, e.app.clone(), e.what.clone())
        };
        let in_sync = self.side.as_ref().expect("side").seen.get(&c).copied().unwrap_or(0) == sidx;
        let before = self.full_all(c);
        let outcome = self.raw_process(c, &ev);
        let after = self.full_all(c);
        self.note(format!("side event s{sidx} ({what}) -> c{c}: {}", Self::outcome_text(&outcome)));
        if let Outcome::Panic(p) = &outcome {
            self.panics.push(format!("process_message(side event s{sidx}) at c{c}: {p}"));
            return Err(Failure::new("panic", format!("process_message panicked at client {c} on side-group event s{sidx}: {p}")));
        }
        if let Some(s) = self.side.as_mut() {
            s.checks += 1;
        }
        if before[0] != after[0] {
            return Err(Failure::new(
                "event-of-one-group-changed-another-group",
                format!(
                    "side-group event s{sidx} ({what}) handed to c{c} ({:?}, step {}) changed the main group there: {}",
                    self.clients[c].kind,
                    self.step,
                    crate::oracles::diff_full(&before[0], &after[0])
                ),
            ));
        }
        if in_sync {
            let side_after = &after[1];
            match (&app, &outcome) {
                (Some((id, content)), Outcome::App(_)) => {
                    let apk = self.clients[author].pk_hex();
                    let held = side_after.msgs_created.iter().find(|m| m.id == *id);
                    match held {
                        Some(m) if m.content == *content && m.pubkey == apk => {}
                        other => {
                            return Err(Failure::new(
                                "event-not-routed-to-its-group",
                                format!(
                                    "side-group message s{sidx} ({what}) by c{author} was answered 'application message' at c{c} but the side group does not hold it as sent: {:?}",
                                    other.map(|m| (&m.id, &m.pubkey, &m.content, &m.state))
                                ),
                            ));
                        }
                    }
                }
                (None, Outcome::Commit) => {}
                _ => {
                    return Err(Failure::new(
                        "event-not-routed-to-its-group",
                        format!(
                            "side-group event s{sidx} ({what}) by c{author}, tagged with the side group's current Nostr group id, handed to side member c{c} ({:?}, step {}) that had seen every earlier side event: {}",
                            self.clients[c].kind,
                            self.step,
                            Self::outcome_text(&outcome)
                        ),
                    ));
                }
            }
            if let Some(s) = self.side.as_mut() {
                s.seen.insert(c, sidx + 1);
            }
            self.side_mirror(c, &format!("side event s{sidx} ({what})"))?;
        }
        obs.after_call(self, c, "process_message(side group)")?;
        Ok(())
    }

    /// C08 for the side group: record and relays mirror S's MLS state
    fn side_mirror(&mut self, c: usize, ctx: &str) -> Result<(), Failure> {
        let Some(gid) = self.side.as_ref().map(|s| s.gid.clone()) else { return Ok(()) };
        if !self.side_active_at(c) {
            return Ok(());
        }
        let lvl = on_mdk!(self.clients[c].mdk(), mm => fp::group_level(mm, &gid));
        match lvl {
            Ok(Some(l)) => {
                if let Some(d) = crate::oracles::mirror_mismatch(&l) {
                    return Err(Failure::new(
                        "record-does-not-mirror-mls-state",
                        format!("side group after {ctx} at c{c} ({:?}, step {}): {d}", self.clients[c].kind, self.step),
                    ));
                }
                Ok(())
            }
            Ok(None) => Ok(()),
            Err(e) => Err(Failure::new("active-group-unreadable", format!("side group after {ctx} at c{c}: {e}"))),
        }
    }

    /// An event of a group `c` is not in (or tagged for a group it does not belong to): it must
    /// be refused and nothing observable may change at `c`.
    fn foreign_feed(&mut self, c: usize, ev: &Event, ctx: &str, obs: &mut dyn Observer) -> Result<(), Failure> {
        if self.clients[c].mdk.is_none() {
            return Ok(());
        }
        let before = self.full_all(c);
        let outcome = self.raw_process(c, ev);
        let after = self.full_all(c);
        self.note(format!("{ctx} -> c{c}: {}", Self::outcome_text(&outcome)));
        if let Outcome::Panic(p) = &outcome {
            self.panics.push(format!("process_message({ctx}) at c{c}: {p}"));
            return Err(Failure::new("panic", format!("process_message panicked at client {c} on {ctx}: {p}")));
        }
        if let Some(s) = self.side.as_mut() {
            s.checks += 1;
        }
        if !is_failure(&outcome) {
            return Err(Failure::new(
                "event-of-a-foreign-group-accepted",
                format!("{ctx} handed to c{c} ({:?}, step {}): {}", self.clients[c].kind, self.step, Self::outcome_text(&outcome)),
            ));
        }
        if before != after {
            let d = before
                .iter()
                .zip(after.iter())
                .map(|(b, a)| crate::oracles::diff_full(b, a))
                .filter(|s| !s.is_empty())
                .collect::<Vec<_>>()
                .join(" | ");
            return Err(Failure::new(
                "event-of-a-foreign-group-had-an-effect",
                format!("{ctx} handed to c{c} ({:?}, step {}) was refused ({}) yet the client changed: {d}", self.clients[c].kind, self.step, outcome.tag()),
            ));
        }
        obs.after_call(self, c, "process_message(foreign group)")?;
        Ok(())
    }

    fn retag(ev: &Event, h_hex: &str) -> Option<Event> {
        EventBuilder::new(Kind::MlsGroupMessage, ev.content.clone())
            .tags(vec![Tag::custom(nostr::TagKind::h(), [h_hex.to_string()])])
            .custom_created_at(ev.created_at)
            .sign_with_keys(&Keys::generate())
            .ok()
    }

    pub fn apply_side_op(&mut self, op: &SideOp, obs: &mut dyn Observer) -> Result<(), Failure> {
        if self.side.is_none() {
            self.count("side:no-side-group");
            return Ok(());
        }
        let sgid = self.side.as_ref().expect("side").gid.clone();
        match op {
            SideOp::Msg { m, ts } => {
                let cands: Vec<usize> = self
                    .side
                    .as_ref()
                    .expect("side")
                    .members
                    .iter()
                    .cloned()
                    .filter(|i| self.clients[*i].mdk.is_some() && self.side_active_at(*i) && self.side_in_sync(*i))
                    .collect();
                let Some(k) = pick(*m, cands.len()) else { return Ok(()) };
                let a = cands[k];
                let pk = self.clients[a].keys.public_key();
                let content = format!("side-canary-{}-{}", self.step, a);
                let rumor = EventBuilder::new(Kind::Custom(9), content.clone())
                    .custom_created_at(Timestamp::from_secs(self.t0 + 100))
                    .build(pk);
                let main_before = self.full(a);
                self.set_ts(*ts);
                let r = catch_unwind(AssertUnwindSafe(|| on_mdk!(self.clients[a].mdk(), mm => mm.create_message(&sgid, rumor.clone()))));
                mdk_core::verif::set_wrapper_created_at(None);
                let ev = match r {
                    Ok(Ok(ev)) => ev,
                    Ok(Err(e)) => {
                        self.sink(&e);
                        self.note(format!("c{a} side create_message refused: {e}"));
                        self.count("side:msg-refused");
                        return Ok(());
                    }
                    Err(p) => {
                        let t = panic_text(p);
                        self.panics.push(format!("create_message(side): {t}"));
                        return Err(Failure::new("panic", format!("create_message panicked: {t}")));
                    }
                };
                let main_after = self.full(a);
                if main_before != main_after {
                    return Err(Failure::new(
                        "call-on-one-group-changed-another-group",
                        format!("create_message in the side group at c{a} changed the main group: {}", crate::oracles::diff_full(&main_before, &main_after)),
                    ));
                }
                let mut stored = rumor.clone();
                stored.ensure_id();
                let id = stored.id.map(|i| i.to_hex()).unwrap_or_default();
                let what = format!("message {content}");
                self.note(format!("side publish s{} by c{a}: {what}", self.side.as_ref().expect("side").events.len()));
                let s = self.side.as_mut().expect("side");
                s.events.push(SideEvent { ev, author: a, app: Some((id, content)), what });
                let sidx = s.events.len() - 1;
                let members = s.members.clone();
                self.count("side:msg");
                for c in members {
                    self.side_process(c, sidx, obs)?;
                }
            }
            SideOp::CrossPost { m } => {
                let cands: Vec<usize> = self
                    .side
                    .as_ref()
                    .expect("side")
                    .members
                    .iter()
                    .cloned()
                    .filter(|i| self.clients[*i].mdk.is_some() && self.side_active_at(*i) && self.side_in_sync(*i))
                    .filter(|i| self.relay.iter().any(|e| e.class == Class::App && e.author == *i && e.forged.is_none() && e.replay_of.is_none() && e.rumor.is_some()))
                    .collect();
                let Some(k) = pick(*m, cands.len()) else { return Ok(()) };
                let a = cands[k];
                let src = self.relay.iter().rposition(|e| e.class == Class::App && e.author == a && e.forged.is_none() && e.replay_of.is_none() && e.rumor.is_some()).expect("checked");
                let rumor = self.relay[src].rumor.clone().expect("checked");
                let content = rumor.content.clone();
                if self.side.as_ref().expect("side").crossposted.contains(&content) {
                    return Ok(());
                }
                let id = rumor.id.map(|i| i.to_hex()).unwrap_or_default();
                self.set_ts(7);
                let r = catch_unwind(AssertUnwindSafe(|| on_mdk!(self.clients[a].mdk(), mm => mm.create_message(&sgid, rumor.clone()))));
                mdk_core::verif::set_wrapper_created_at(None);
                let ev = match r {
                    Ok(Ok(ev)) => ev,
                    Ok(Err(e)) => {
                        self.sink(&e);
                        self.note(format!("c{a} cross-post refused: {e}"));
                        return Ok(());
                    }
                    Err(p) => {
                        let t = panic_text(p);
                        self.panics.push(format!("create_message(cross-post): {t}"));
                        return Err(Failure::new("panic", format!("create_message panicked: {t}")));
                    }
                };
                let what = format!("cross-post of main-group message #{src} ({content})");
                self.note(format!("side publish s{} by c{a}: {what}", self.side.as_ref().expect("side").events.len()));
                let s = self.side.as_mut().expect("side");
                s.crossposted.insert(content.clone());
                s.events.push(SideEvent { ev, author: a, app: Some((id, content)), what });
                let sidx = s.events.len() - 1;
                let members = s.members.clone();
                self.count("side:cross-post");
                for c in members {
                    self.side_process(c, sidx, obs)?;
                }
            }
            SideOp::Commit { kind, ts } => {
                let a = self.side.as_ref().expect("side").creator;
                if self.clients[a].mdk.is_none() || !self.side_active_at(a) || !self.side_in_sync(a) {
                    return Ok(());
                }
                let main_before = self.full(a);
                self.set_ts(*ts);
                let n = self.side.as_ref().expect("side").events.len();
                let (r, what) = match kind % 4 {
                    0 => (on_mdk!(self.clients[a].mdk(), mm => mm.self_update(&sgid)), "self_update".to_string()),
                    1 => {
                        let upd = NostrGroupDataUpdate { name: Some(format!("side-name-{n}")), ..Default::default() };
                        (on_mdk!(self.clients[a].mdk(), mm => mm.update_group_data(&sgid, upd)), format!("rename side-name-{n}"))
                    }
                    2 => {
                        let mut id = [0u8; 32];
                        let mut h = Sha256::new();
                        h.update(b"side-rotation");
                        h.update(sgid.as_slice());
                        h.update((n as u64).to_be_bytes());
                        id.copy_from_slice(&h.finalize());
                        let upd = NostrGroupDataUpdate { nostr_group_id: Some(id), ..Default::default() };
                        (on_mdk!(self.clients[a].mdk(), mm => mm.update_group_data(&sgid, upd)), "rotate Nostr group id".to_string())
                    }
                    _ => {
                        let upd = NostrGroupDataUpdate { relays: Some(vec![relay_url(3), relay_url(4 + (n % 2) as u8)]), ..Default::default() };
                        (on_mdk!(self.clients[a].mdk(), mm => mm.update_group_data(&sgid, upd)), "relay change".to_string())
                    }
                };
                mdk_core::verif::set_wrapper_created_at(None);
                let res = match r {
                    Ok(res) => res,
                    Err(e) => {
                        self.sink(&e);
                        self.note(format!("c{a} side commit ({what}) refused: {e}"));
                        self.count("side:commit-refused");
                        return Ok(());
                    }
                };
                if let Err(e) = on_mdk!(self.clients[a].mdk(), mm => mm.merge_pending_commit(&sgid)) {
                    return Err(Failure::new("side-merge-failed", format!("merge_pending_commit in the side group at c{a}: {e}")));
                }
                let main_after = self.full(a);
                if main_before != main_after {
                    return Err(Failure::new(
                        "call-on-one-group-changed-another-group",
                        format!("{what} + merge_pending_commit in the side group at c{a} changed the main group: {}", crate::oracles::diff_full(&main_before, &main_after)),
                    ));
                }
                self.side_mirror(a, &format!("own {what}"))?;
                self.note(format!("side publish s{n} by c{a}: commit {what}"));
                let s = self.side.as_mut().expect("side");
                s.events.push(SideEvent { ev: res.evolution_event, author: a, app: None, what: format!("commit {what}") });
                let sidx = s.events.len() - 1;
                s.seen.insert(a, sidx + 1);
                let members = s.members.clone();
                self.count(&format!("side:commit:{}", what.split(' ').next().unwrap_or("")));
                for c in members {
                    if c != a {
                        self.side_process(c, sidx, obs)?;
                    }
                }
            }
            SideOp::ToNonMember { m, sel } => {
                let s = self.side.as_ref().expect("side");
                let cands: Vec<usize> = (0..self.n_members)
                    .filter(|i| !s.members.contains(i) && self.clients[*i].mdk.is_some())
                    .collect();
                let Some(k) = pick(*m, cands.len()) else { return Ok(()) };
                let Some(e) = pick(*sel, s.events.len()) else { return Ok(()) };
                let ev = s.events[e].ev.clone();
                let ctx = format!("side-group event s{e} ({}) given to a client that is not in the side group", s.events[e].what);
                self.count("side:to-non-member");
                self.foreign_feed(cands[k], &ev, &ctx, obs)?;
            }
            SideOp::MainToSideOnly { sel } => {
                let s = self.side.as_ref().expect("side");
                let Some(c) = s.side_only else { return Ok(()) };
                let cands: Vec<usize> = (0..self.relay.len()).filter(|i| !self.relay[*i].withdrawn).collect();
                let Some(k) = pick(*sel, cands.len()) else { return Ok(()) };
                let idx = cands[k];
                let ev = self.relay[idx].ev.clone();
                let ctx = format!("main-group event #{idx} ({}) given to a client that is in the side group only", self.relay[idx].what);
                self.count("side:main-to-side-only");
                self.foreign_feed(c, &ev, &ctx, obs)?;
            }
            SideOp::TaggedAsMain { v, sel } => {
                let Some(v) = self.member_sel(*v) else { return Ok(()) };
                if self.clients[v].mdk.is_none() {
                    return Ok(());
                }
                let s = self.side.as_ref().expect("side");
                let Some(e) = pick(*sel, s.events.len()) else { return Ok(()) };
                let Some(h) = self.main_record_hex(v) else { return Ok(()) };
                let Some(ev) = Self::retag(&s.events[e].ev, &h) else { return Ok(()) };
                let what = format!("side-group event s{e} ({}) re-tagged with the main group's Nostr group id", s.events[e].what);
                let author = s.events[e].author;
                let idx = self.publish(author, Class::Crafted, None, vec![], ev, None, what, false);
                self.relay[idx].named = Named { rogue: Some("hostile:OtherGroupsEventTaggedAsThisGroup".into()), ..Named::default() };
                self.relay[idx].other_group = true;
                self.count("side:tagged-as-main");
                self.deliver(v, idx, obs)?;
            }
            SideOp::MainTaggedAsSide { v, sel } => {
                let Some(v) = self.member_sel(*v) else { return Ok(()) };
                if self.clients[v].mdk.is_none() {
                    return Ok(());
                }
                let creator = self.side.as_ref().expect("side").creator;
                let Some(h) = self.side_record_hex(v).or_else(|| self.side_record_hex(creator)) else { return Ok(()) };
                let cands: Vec<usize> = (0..self.relay.len()).filter(|i| !self.relay[*i].withdrawn && !self.relay[*i].other_group).collect();
                let Some(k) = pick(*sel, cands.len()) else { return Ok(()) };
                let src = cands[k];
                let Some(ev) = Self::retag(&self.relay[src].ev, &h) else { return Ok(()) };
                let what = format!("main-group event #{src} ({}) re-tagged with the side group's Nostr group id", self.relay[src].what);
                let author = self.relay[src].author;
                let idx = self.publish(author, Class::Crafted, None, vec![], ev, None, what, false);
                self.relay[idx].named = Named { rogue: Some("hostile:ThisGroupsEventTaggedAsOtherGroup".into()), ..Named::default() };
                self.relay[idx].other_group = true;
                self.count("side:main-tagged-as-side");
                self.deliver(v, idx, obs)?;
            }
        }
        Ok(())
    }
}
