//! Generic driver: proptest generation on N workers, shrinking, replay files, known-finding
//! witnesses, regression plans and the evidence file.

use std::collections::{BTreeMap, HashSet};
use std::hash::{Hash, Hasher};
use std::path::PathBuf;
use std::sync::Mutex;
use std::sync::atomic::{AtomicBool, AtomicUsize, Ordering};
use std::time::Instant;

use proptest::strategy::Strategy;
use proptest::test_runner::{Config, RngSeed, TestCaseError, TestError, TestRunner};
use serde::Serialize;
use serde::de::DeserializeOwned;
use serde_json::{Value, json};

pub use crate::world::Failure;

#[derive(Clone, Copy, Debug, PartialEq, Eq)]
pub enum Tier {
    Quick,
    Thorough,
}

impl Tier {
    pub fn name(&self) -> &'static str {
        match self {
            Tier::Quick => "quick",
            Tier::Thorough => "thorough",
        }
    }
}

#[derive(Clone, Copy, Debug, PartialEq, Eq)]
pub enum Mode {
    /// known-finding excuses and exclusions active
    Normal,
    /// no excuses: used to show that a listed finding still reproduces
    Strict,
}

#[derive(Clone, Debug)]
pub struct Args {
    pub id: String,
    pub tier: Tier,
    pub seed: u64,
    pub replay: Option<PathBuf>,
    pub cases: Option<usize>,
    pub workers: Option<usize>,
    pub budget_s: Option<u64>,
    pub root: PathBuf,
    pub extra: Vec<String>,
}

#[derive(Clone, Debug, Default)]
pub struct CaseReport {
    pub nontrivial: bool,
    pub classes: Vec<String>,
    pub counters: BTreeMap<String, u64>,
    /// known-finding classes this case touched and was excused for
    pub excused: Vec<String>,
    pub note: Option<String>,
    /// how many evaluations this case stands for (0 = one); fault enumeration counts crash points
    pub units: u64,
}

pub struct Spec {
    pub id: &'static str,
    pub level: &'static str,
    pub rule: String,
    pub assumptions: Vec<String>,
    /// the run is inconclusive (exit 2) when fewer distinct non-trivial cases were seen
    pub min_nontrivial: usize,
    pub max_shrink_iters: u32,
    pub exhaustive: bool,
}

#[derive(Default)]
struct Shared {
    evaluations: u64,
    nontrivial_hashes: HashSet<u64>,
    nontrivial_total: u64,
    classes: BTreeMap<String, u64>,
    counters: BTreeMap<String, u64>,
    excused: BTreeMap<String, u64>,
    samples: Vec<Value>,
    failures: Vec<FoundFailure>,
    notes: Vec<String>,
}

#[derive(Clone, Debug)]
pub struct FoundFailure {
    pub clause: String,
    pub detail: String,
    pub original: Value,
    pub shrunk: Option<Value>,
    pub shrunk_reproduced: usize,
    pub worker: usize,
}

fn hash_of<T: Hash>(t: &T) -> u64 {
    let mut h = std::collections::hash_map::DefaultHasher::new();
    t.hash(&mut h);
    h.finish()
}

pub fn parse_args() -> Result<Args, String> {
    let mut it = std::env::args().skip(1);
    let id = it.next().ok_or("usage: vcheck <ID> [--tier quick|thorough] [--seed N] [--replay FILE]")?;
    let mut tier = match std::env::var("VERIF_TIER").ok().as_deref() {
        Some("thorough") => Tier::Thorough,
        _ => Tier::Quick,
    };
    let mut seed: u64 = std::env::var("VERIF_SEED")
        .ok()
        .and_then(|s| s.trim().parse::<i128>().ok())
        .map(|v| v as u64)
        .unwrap_or(1);
    let mut replay = None;
    let mut cases = None;
    let mut workers = None;
    let mut budget_s = None;
    let mut extra = vec![];
    let mut tier_from_arg = false;
    while let Some(a) = it.next() {
        match a.as_str() {
            "--tier" => {
                let v = it.next().ok_or("--tier needs a value")?;
                tier = match v.as_str() {
                    "quick" => Tier::Quick,
                    "thorough" => Tier::Thorough,
                    _ => return Err(format!("unknown tier {v}")),
                };
                tier_from_arg = true;
            }
            "quick" if !tier_from_arg => tier = Tier::Quick,
            "thorough" if !tier_from_arg => tier = Tier::Thorough,
            "--seed" => {
                seed = it
                    .next()
                    .ok_or("--seed needs a value")?
                    .parse::<i128>()
                    .map_err(|e| e.to_string())? as u64
            }
            "--replay" => replay = Some(PathBuf::from(it.next().ok_or("--replay needs a path")?)),
            "--cases" => cases = Some(it.next().ok_or("--cases needs n")?.parse().map_err(|_| "bad --cases")?),
            "--workers" => {
                workers = Some(it.next().ok_or("--workers needs n")?.parse().map_err(|_| "bad --workers")?)
            }
            "--budget-s" => {
                budget_s = Some(it.next().ok_or("--budget-s needs n")?.parse().map_err(|_| "bad --budget-s")?)
            }
            other => extra.push(other.to_string()),
        }
    }
    let root = std::env::var("VERIF_ROOT")
        .map(PathBuf::from)
        .unwrap_or_else(|_| PathBuf::from("/verif"));
    Ok(Args {
        id,
        tier,
        seed,
        replay,
        cases,
        workers,
        budget_s,
        root,
        extra,
    })
}

pub struct KnownFinding {
    pub property: String,
    pub key: String,
    pub what: String,
    pub clause: String,
    pub witness: Value,
}

pub fn load_known_findings(args: &Args, property: &str) -> Vec<KnownFinding> {
    let p = args.root.join("known_findings.json");
    let Ok(txt) = std::fs::read_to_string(&p) else {
        return vec![];
    };
    let Ok(v) = serde_json::from_str::<Value>(&txt) else {
        eprintln!("warning: {} is not valid JSON", p.display());
        return vec![];
    };
    let mut out = vec![];
    if let Some(arr) = v.get("findings").and_then(|f| f.as_array()) {
        for f in arr {
            if f.get("property").and_then(|x| x.as_str()) != Some(property) {
                continue;
            }
            if f.get("status").and_then(|x| x.as_str()) != Some("open") {
                continue;
            }
            out.push(KnownFinding {
                property: property.to_string(),
                key: f.get("key").and_then(|x| x.as_str()).unwrap_or("").to_string(),
                what: f.get("what").and_then(|x| x.as_str()).unwrap_or("").to_string(),
                clause: f.get("clause").and_then(|x| x.as_str()).unwrap_or("").to_string(),
                witness: f.get("witness").cloned().unwrap_or(Value::Null),
            });
        }
    }
    out
}

fn write_replay(args: &Args, id: &str, f: &FoundFailure, trace: &[String]) -> PathBuf {
    let dir = args.root.join("replays").join(id);
    let _ = std::fs::create_dir_all(&dir);
    let case = f.shrunk.clone().unwrap_or_else(|| f.original.clone());
    let h = hash_of(&case.to_string());
    let path = dir.join(format!("{}-seed{}-{:016x}.json", args.tier.name(), args.seed, h));
    let body = json!({
        "property": id,
        "seed": args.seed,
        "tier": args.tier.name(),
        "clause": f.clause,
        "detail": f.detail,
        "case": case,
        "original_case": f.original,
        "shrunk_reproduced_of_3": f.shrunk_reproduced,
        "trace_of_failing_run": trace,
    });
    let _ = std::fs::write(&path, serde_json::to_string_pretty(&body).unwrap());
    path
}

thread_local! {
    pub static LAST_TRACE: std::cell::RefCell<Vec<String>> = const { std::cell::RefCell::new(Vec::new()) };
}

pub fn set_last_trace(t: Vec<String>) {
    LAST_TRACE.with(|l| *l.borrow_mut() = t);
}
pub fn take_last_trace() -> Vec<String> {
    LAST_TRACE.with(|l| std::mem::take(&mut *l.borrow_mut()))
}

pub struct RunPlan {
    pub cases: usize,
    pub workers: usize,
}

/// Runs a whole check. Returns the process exit code.
pub fn drive<C, S, MkS, F>(args: &Args, spec: Spec, plan: RunPlan, mk_strategy: MkS, exec: F) -> i32
where
    C: Clone + std::fmt::Debug + Serialize + DeserializeOwned + Send + Hash + 'static,
    S: Strategy<Value = C>,
    MkS: Fn() -> S + Sync,
    F: Fn(&C, Mode) -> Result<CaseReport, Failure> + Sync,
{
    let started = Instant::now();
    let id = spec.id;

    // ---------------------------------------------------------------- replay mode
    if let Some(path) = &args.replay {
        let txt = match std::fs::read_to_string(path) {
            Ok(t) => t,
            Err(e) => {
                eprintln!("cannot read replay file {}: {e}", path.display());
                return 2;
            }
        };
        let v: Value = match serde_json::from_str(&txt) {
            Ok(v) => v,
            Err(e) => {
                eprintln!("replay file is not JSON: {e}");
                return 2;
            }
        };
        let case_v = v.get("case").cloned().unwrap_or(v.clone());
        let case: C = match serde_json::from_value(case_v) {
            Ok(c) => c,
            Err(e) => {
                eprintln!("replay file does not hold a case of {id}: {e}");
                return 2;
            }
        };
        let tries = 5;
        for t in 0..tries {
            match exec(&case, Mode::Normal) {
                Ok(_) => {}
                Err(f) => {
                    println!("replay attempt {}: {} — {}", t + 1, f.clause, f.detail);
                    if std::env::var("VCHECK_LOGS").is_ok() || std::env::var("VCHECK_TRACE").is_ok() {
                        for l in take_last_trace() {
                            println!("{l}");
                        }
                    }
                    println!("VIOLATION property={id} replay={}", path.display());
                    return 1;
                }
            }
        }
        println!("replay of {} passed {tries} times", path.display());
        return 0;
    }

    let shared = Mutex::new(Shared::default());
    let mut violation_lines: Vec<String> = vec![];
    // `--strict`: generate without known-finding excuses (used to find witnesses for them)
    let gen_mode = if args.extra.iter().any(|a| a == "--strict") {
        Mode::Strict
    } else {
        Mode::Normal
    };

    // ---------------------------------------------------------------- known findings (witnesses)
    for kf in load_known_findings(args, id) {
        let case: Result<C, _> = serde_json::from_value(kf.witness.clone());
        match case {
            Ok(case) => {
                let mut reproduced = false;
                let mut last = String::new();
                for _ in 0..8 {
                    match exec(&case, Mode::Strict) {
                        Err(f) if f.clause == kf.clause => {
                            reproduced = true;
                            break;
                        }
                        Err(f) => last = format!("failed with another clause: {} — {}", f.clause, f.detail),
                        Ok(_) => last = "passed".into(),
                    }
                }
                if reproduced {
                    println!("KNOWN-FINDING: property={id} {} [{}]", kf.what, kf.key);
                    shared.lock().unwrap().notes.push(format!("known finding {} reproduced by its witness", kf.key));
                } else {
                    println!("note: witness of known finding {} did not reproduce ({last})", kf.key);
                    shared
                        .lock()
                        .unwrap()
                        .notes
                        .push(format!("known finding {} did NOT reproduce: {last}", kf.key));
                }
            }
            Err(e) => {
                eprintln!("known finding {}: witness is not a case of {id}: {e}", kf.key);
            }
        }
    }

    // `--only <clause>`: witness search for one clause (other failures are ignored)
    let only_clause: Option<String> = args
        .extra
        .iter()
        .position(|a| a == "--only")
        .and_then(|i| args.extra.get(i + 1).cloned());

    // ---------------------------------------------------------------- regression plans
    // `--no-regress` (sensitivity experiments only): judge the generated search by itself
    let skip_regress = args.extra.iter().any(|a| a == "--no-regress");
    let reg_dir = args.root.join("regress").join(id);
    if skip_regress {
        println!("note: regression plans skipped (--no-regress)");
    } else if let Ok(rd) = std::fs::read_dir(&reg_dir) {
        let mut files: Vec<PathBuf> = rd.flatten().map(|e| e.path()).collect();
        files.sort();
        for p in files {
            if p.extension().and_then(|e| e.to_str()) != Some("json") {
                continue;
            }
            let Ok(txt) = std::fs::read_to_string(&p) else { continue };
            let Ok(v) = serde_json::from_str::<Value>(&txt) else { continue };
            let case_v = v.get("case").cloned().unwrap_or(v.clone());
            let Ok(case) = serde_json::from_value::<C>(case_v) else {
                eprintln!("regression file {} is not a case of {id}", p.display());
                continue;
            };
            let mut sh = shared.lock().unwrap();
            sh.evaluations += 1;
            *sh.counters.entry("regression-plans".into()).or_insert(0) += 1;
            drop(sh);
            // schedule-dependent plans (thread races) ask to be run several times
            let repeat = v.get("repeat").and_then(|r| r.as_u64()).unwrap_or(1).max(1);
            let outcome = (0..repeat).find_map(|_| exec(&case, Mode::Normal).err());
            if let Some(f) = outcome {
                println!("regression plan {} fails: {} — {}", p.display(), f.clause, f.detail);
                violation_lines.push(format!("VIOLATION property={id} replay={}", p.display()));
                shared.lock().unwrap().failures.push(FoundFailure {
                    clause: f.clause,
                    detail: f.detail,
                    original: v.clone(),
                    shrunk: None,
                    shrunk_reproduced: 0,
                    worker: 0,
                });
            }
        }
    }

    // ---------------------------------------------------------------- generation
    let workers = args.workers.unwrap_or(plan.workers).max(1);
    let total_cases = args.cases.unwrap_or(plan.cases);
    let stop = AtomicBool::new(false);
    let budget_hit = AtomicBool::new(false);
    let done_cases = AtomicUsize::new(0);
    let budget = args.budget_s.map(std::time::Duration::from_secs);
    let replay_traces: Mutex<Vec<(usize, Vec<String>)>> = Mutex::new(vec![]);

    if violation_lines.is_empty() && total_cases > 0 {
        std::thread::scope(|scope| {
            for w in 0..workers {
                let shared = &shared;
                let stop = &stop;
                let budget_hit = &budget_hit;
                let done_cases = &done_cases;
                let exec = &exec;
                let mk_strategy = &mk_strategy;
                let replay_traces = &replay_traces;
                let only_clause = &only_clause;
                let seed = args.seed;
                let max_shrink_iters = spec.max_shrink_iters;
                let my_cases = total_cases / workers + if w < total_cases % workers { 1 } else { 0 };
                std::thread::Builder::new()
                    .name(format!("worker-{w}"))
                    .stack_size(64 << 20)
                    .spawn_scoped(scope, move || {
                        if my_cases == 0 {
                            return;
                        }
                        let cfg = Config {
                            cases: my_cases as u32,
                            failure_persistence: None,
                            rng_seed: RngSeed::Fixed(seed.wrapping_mul(0x9E37_79B9_7F4A_7C15) ^ (w as u64 + 1)),
                            max_shrink_iters,
                            max_global_rejects: 100_000,
                            ..Config::default()
                        };
                        let mut runner = TestRunner::new(cfg);
                        let strategy = mk_strategy();
                        let first: Mutex<Option<(String, String, Value, Vec<String>)>> = Mutex::new(None);
                        let shrinking = AtomicBool::new(false);
                        let result = runner.run(&strategy, |case: C| {
                            let in_shrink = shrinking.load(Ordering::SeqCst);
                            if !in_shrink {
                                if stop.load(Ordering::SeqCst) {
                                    return Ok(());
                                }
                                if let Some(b) = budget {
                                    if started.elapsed() > b {
                                        budget_hit.store(true, Ordering::SeqCst);
                                        return Ok(());
                                    }
                                }
                            }
                            let mut result = exec(&case, gen_mode);
                            if let (Err(f), Some(only)) = (&result, only_clause.as_ref()) {
                                if &f.clause != only {
                                    result = Ok(CaseReport::default());
                                }
                            }
                            match result {
                                Ok(rep) => {
                                    if !in_shrink {
                                        done_cases.fetch_add(1, Ordering::SeqCst);
                                        let mut sh = shared.lock().unwrap();
                                        sh.evaluations += rep.units.max(1);
                                        for c in &rep.classes {
                                            *sh.classes.entry(c.clone()).or_insert(0) += 1;
                                        }
                                        for (k, v) in &rep.counters {
                                            *sh.counters.entry(k.clone()).or_insert(0) += v;
                                        }
                                        for e in &rep.excused {
                                            *sh.excused.entry(e.clone()).or_insert(0) += 1;
                                        }
                                        if rep.nontrivial {
                                            sh.nontrivial_total += 1;
                                            let h = hash_of(&case);
                                            let fresh = sh.nontrivial_hashes.insert(h);
                                            if fresh && sh.samples.len() < 4 {
                                                let mut v = serde_json::to_value(&case).unwrap_or(Value::Null);
                                                if let Some(n) = &rep.note {
                                                    v = json!({"case": v, "classes": rep.classes, "note": n});
                                                } else {
                                                    v = json!({"case": v, "classes": rep.classes});
                                                }
                                                sh.samples.push(v);
                                            }
                                        }
                                    }
                                    Ok(())
                                }
                                Err(f) => {
                                    let mut g = first.lock().unwrap();
                                    match &*g {
                                        None => {
                                            stop.store(true, Ordering::SeqCst);
                                            shrinking.store(true, Ordering::SeqCst);
                                            let mut sh = shared.lock().unwrap();
                                            sh.evaluations += 1;
                                            drop(sh);
                                            *g = Some((
                                                f.clause.clone(),
                                                f.detail.clone(),
                                                serde_json::to_value(&case).unwrap_or(Value::Null),
                                                take_last_trace(),
                                            ));
                                            Err(TestCaseError::fail(f.clause))
                                        }
                                        Some((clause, _, _, _)) => {
                                            if *clause == f.clause {
                                                Err(TestCaseError::fail(f.clause))
                                            } else {
                                                Ok(())
                                            }
                                        }
                                    }
                                }
                            }
                        });
                        match result {
                            Ok(()) => {}
                            Err(TestError::Fail(reason, shrunk)) => {
                                let Some((clause, detail, original, trace)) = first.lock().unwrap().clone() else {
                                    // the check itself panicked: infrastructure, not a verdict
                                    stop.store(true, Ordering::SeqCst);
                                    shared.lock().unwrap().notes.push(format!(
                                        "INFRASTRUCTURE: worker {w}: the check panicked outside its oracle: {reason}; case {}",
                                        serde_json::to_string(&shrunk).unwrap_or_default()
                                    ));
                                    return;
                                };
                                // is the shrunk case reliable?
                                let mut reproduced = 0;
                                let mut shrunk_trace = vec![];
                                let mut shrunk_detail = None;
                                for _ in 0..3 {
                                    if let Err(f) = exec(&shrunk, gen_mode) {
                                        if f.clause == clause {
                                            reproduced += 1;
                                            shrunk_trace = take_last_trace();
                                            shrunk_detail = Some(f.detail);
                                        }
                                    }
                                }
                                let ff = FoundFailure {
                                    clause,
                                    detail: shrunk_detail.clone().unwrap_or(detail),
                                    original,
                                    shrunk: if reproduced > 0 {
                                        Some(serde_json::to_value(&shrunk).unwrap_or(Value::Null))
                                    } else {
                                        None
                                    },
                                    shrunk_reproduced: reproduced,
                                    worker: w,
                                };
                                replay_traces.lock().unwrap().push((
                                    w,
                                    if reproduced > 0 { shrunk_trace } else { trace },
                                ));
                                shared.lock().unwrap().failures.push(ff);
                            }
                            Err(TestError::Abort(reason)) => {
                                shared
                                    .lock()
                                    .unwrap()
                                    .notes
                                    .push(format!("worker {w}: generation aborted: {reason}"));
                            }
                        }
                    })
                    .expect("spawn worker");
            }
        });
    }

    // ---------------------------------------------------------------- report
    let sh = shared.into_inner().unwrap();
    let traces = replay_traces.into_inner().unwrap();
    for f in &sh.failures {
        if f.shrunk.is_none() && f.original.get("case").is_some() {
            // regression plan failure: line already emitted
            continue;
        }
        let trace = traces
            .iter()
            .find(|(w, _)| *w == f.worker)
            .map(|(_, t)| t.clone())
            .unwrap_or_default();
        let path = write_replay(args, id, f, &trace);
        println!("violated clause: {} — {}", f.clause, f.detail);
        violation_lines.push(format!("VIOLATION property={id} replay={}", path.display()));
    }
    let distinct = sh.nontrivial_hashes.len();
    let wall = started.elapsed().as_secs_f64();
    let mut samples = sh.samples.clone();
    if samples.is_empty() {
        samples.push(json!("no non-trivial case was generated in this run"));
    }
    let evidence = json!({
        "property_id": id,
        "tier": args.tier.name(),
        "seed": args.seed as i64,
        "level": spec.level,
        "coverage": {
            "evaluations": sh.evaluations,
            "distinct_nontrivial": distinct,
            "nontrivial_total": sh.nontrivial_total,
            "rule": spec.rule,
            "samples": samples,
            "classes": sh.classes,
            "counters": sh.counters,
            "excluded_known_findings": sh.excused,
            "workers": workers,
            "planned_cases": total_cases,
            "budget_exhausted": budget_hit.load(Ordering::SeqCst),
            "notes": sh.notes,
            "exhaustive": spec.exhaustive,
        },
        "assumptions": spec.assumptions,
        "wall_s": wall,
        "violations": violation_lines.len(),
    });
    // evidence describes a registered command's run; experiments (overridden case counts, witness
    // searches, sensitivity runs without regression plans) leave the committed record alone
    let experiment = args.cases.is_some()
        || std::env::var("VCHECK_NO_EVIDENCE").is_ok()
        || args.extra.iter().any(|a| a == "--strict" || a == "--only" || a == "--no-regress");
    if !experiment {
        let ev_dir = args.root.join("evidence");
        let _ = std::fs::create_dir_all(&ev_dir);
        let ev_path = ev_dir.join(format!("{id}.json"));
        if let Err(e) = std::fs::write(&ev_path, serde_json::to_string_pretty(&evidence).unwrap()) {
            eprintln!("cannot write evidence file {}: {e}", ev_path.display());
            return 2;
        }
    }
    println!(
        "{id} {}: {} cases, {} distinct non-trivial, {} violation(s), {:.1}s",
        args.tier.name(),
        sh.evaluations,
        distinct,
        violation_lines.len(),
        wall
    );
    if !violation_lines.is_empty() {
        for l in &violation_lines {
            println!("{l}");
        }
        return 1;
    }
    if let Some(n) = sh.notes.iter().find(|n| n.starts_with("INFRASTRUCTURE")) {
        println!("inconclusive: {n}");
        return 2;
    }
    if distinct < spec.min_nontrivial {
        println!(
            "inconclusive: only {distinct} distinct non-trivial cases (floor {})",
            spec.min_nontrivial
        );
        return 2;
    }
    0
}
