fn main() { println!("vcheck"); }
