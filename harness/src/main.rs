mod fingerprint;
mod logcap;
mod needles;
mod plangen;
mod oracles;
mod props;
mod rogue;
mod runner;
mod storemodel;
mod keystore;
mod world;

fn main() {
    // quiet panics: payloads are captured by catch_unwind where they matter
    std::panic::set_hook(Box::new(|info| {
        if std::env::var("VCHECK_SHOW_PANICS").is_ok() {
            eprintln!("panic: {info}");
        }
    }));
    {
        let a: Vec<String> = std::env::args().collect();
        if a.len() == 3 && a[1] == "__crash_child" {
            std::process::exit(props::c12::child_main(&a[2]));
        }
    }
    {
        let a: Vec<String> = std::env::args().collect();
        if a.len() == 3 && a[1] == "__corpus" {
            std::process::exit(props::corpus::write(&a[2]));
        }
    }
    world::sweep_stale_scratch();
    logcap::install();
    let args = match runner::parse_args() {
        Ok(a) => a,
        Err(e) => {
            eprintln!("{e}");
            std::process::exit(2);
        }
    };
    let code = match args.id.as_str() {
        "C01" => props::c01::main(&args),
        "C02" => props::c02::main(&args),
        "C03" => props::c03::main(&args),
        "C04" => props::c04::main(&args),
        "C05" => props::c05::main(&args),
        "C06" => props::c06::main(&args),
        "C07" => props::c07::main(&args),
        "C08" => props::c08::main(&args),
        "C09" => props::store::main(&args, props::store::Focus::Rollback),
        "C10" => props::store::main(&args, props::store::Focus::Differential),
        "C11" => props::c11::main(&args),
        "C12" => props::c12::main(&args),
        "C13" => props::c13::main(&args),
        "C14" => props::c14::main(&args),
        "C15" => props::c15::main(&args),
        "C16" => props::c16::main(&args),
        "C19" => props::c19::main(&args),
        "C20" => props::c20::main(&args),
        "C17" => props::c17::main(&args),
        "C18" => props::c18::main(&args),
        other => {
            eprintln!("unknown property {other}");
            2
        }
    };
    std::process::exit(code);
}
