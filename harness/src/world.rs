//! E1: a simulated world of mdk clients, a relay log and a delivery scheduler.
//!
//! Plans (`Vec<Op>`) are interpreted against the real crates. Every index in an `Op` is
//! resolved at interpretation time against what exists then, so any sub-sequence of a plan is
//! again a plan (needed for shrinking).

use std::collections::{BTreeMap, BTreeSet, HashMap, HashSet};
use std::panic::{AssertUnwindSafe, catch_unwind};
use std::path::PathBuf;
use std::sync::{Arc, Mutex};

use mdk_core::callback::{MdkCallback, RollbackInfo};
use mdk_core::groups::{NostrGroupConfigData, NostrGroupDataUpdate, UpdateGroupResult};
use mdk_core::messages::MessageProcessingResult;
use mdk_core::{MDK, MdkConfig};
use mdk_memory_storage::MdkMemoryStorage;
use mdk_sqlite_storage::MdkSqliteStorage;
use mdk_storage_traits::GroupId;
use mdk_storage_traits::groups::types::GroupState;
use nostr::{Event, EventBuilder, EventId, Keys, Kind, RelayUrl, Tag, Timestamp, UnsignedEvent};
use serde::{Deserialize, Serialize};
use sha2::{Digest, Sha256};

use crate::fingerprint::{self as fp, Full, GroupLevel, StateKey};

#[path = "world_side.rs"]
pub mod side;
pub use side::SideOp;

// ---------------------------------------------------------------------------------------------
// clients
// ---------------------------------------------------------------------------------------------

pub enum AnyMdk {
    Mem(MDK<MdkMemoryStorage>),
    Sql(MDK<MdkSqliteStorage>),
}

#[macro_export]
macro_rules! on_mdk {
    ($any:expr, $m:ident => $e:expr) => {
        match $any {
            $crate::world::AnyMdk::Mem($m) => $e,
            $crate::world::AnyMdk::Sql($m) => $e,
        }
    };
}

#[derive(Clone, Copy, Debug, PartialEq, Eq, Hash, Serialize, Deserialize)]
pub enum BackendKind {
    Mem,
    Sql,
    /// SQLCipher with a caller-supplied key (derived from the path, see `key_for_path`)
    SqlKey,
    /// SQLCipher with a key managed through the (mock) keyring
    SqlKeyring,
}

impl BackendKind {
    pub fn is_sql(&self) -> bool {
        !matches!(self, BackendKind::Mem)
    }
}

pub fn key_for_path(p: &std::path::Path) -> [u8; 32] {
    let mut h = Sha256::new();
    h.update(b"vcheck-db-key");
    h.update(p.to_string_lossy().as_bytes());
    h.finalize().into()
}

pub const KEYRING_SERVICE: &str = "vcheck.mdk.verif";

pub fn ensure_mock_keyring() {
    // (an in-memory store of the harness's own: like keyring-core's mock store, plus a write fault)
    let _ = crate::keystore::install();
}

#[derive(Debug, Default)]
pub struct RollbackRecorder {
    pub log: Mutex<Vec<RollbackInfo>>,
}

impl MdkCallback for RollbackRecorder {
    fn on_rollback(&self, info: &RollbackInfo) {
        self.log.lock().unwrap().push(info.clone());
    }
}

#[derive(Clone, Debug, Serialize, Deserialize, PartialEq, Eq, Hash)]
pub struct Cfg {
    pub out_of_order_tolerance: u32,
    pub maximum_forward_distance: u32,
    pub max_past_epochs: usize,
    pub retention: usize,
    pub ttl: u64,
    /// memory clients: `ValidationLimits::max_messages_per_group` (0 = the backend's default)
    #[serde(default)]
    pub mem_msg_limit: usize,
}

impl Default for Cfg {
    fn default() -> Self {
        let d = MdkConfig::default();
        Cfg {
            out_of_order_tolerance: d.out_of_order_tolerance,
            maximum_forward_distance: d.maximum_forward_distance,
            max_past_epochs: d.max_past_epochs,
            retention: d.epoch_snapshot_retention,
            ttl: d.snapshot_ttl_seconds,
            mem_msg_limit: 0,
        }
    }
}

impl Cfg {
    pub fn to_mdk(&self) -> MdkConfig {
        MdkConfig {
            out_of_order_tolerance: self.out_of_order_tolerance,
            maximum_forward_distance: self.maximum_forward_distance,
            max_past_epochs: self.max_past_epochs,
            epoch_snapshot_retention: self.retention,
            snapshot_ttl_seconds: self.ttl,
            ..MdkConfig::default()
        }
    }
}

/// What happened when an event was first handed to a client.
#[derive(Clone, Debug)]
pub struct DeliveryRec {
    /// global delivery sequence number of the first hand-over
    pub first_seq: usize,
    /// the receiver's membership stint (see `Client::stint`) at the first hand-over
    pub first_stint: u32,
    pub count: usize,
    pub first_step: usize,
    /// client state when first handed over
    pub first_state: Option<StateKey>,
    /// had the client reached the event's base state by then?
    pub first_reached_base: bool,
    pub first_at_base: bool,
    pub first_outcome: Outcome,
    pub last_outcome: Outcome,
    /// restarts of the client so far when first handed over
    pub first_restarts: usize,
    /// did the event's `h` tag equal the Nostr group id the client had on record then?
    pub first_routed: bool,
    /// highest epoch the client had ever been in when first handed the event
    pub max_epoch_before: u64,
}

#[derive(Clone, Debug)]
pub struct RollbackObs {
    pub step: usize,
    pub state_before: Option<StateKey>,
    pub target_epoch: u64,
    pub head: EventId,
    pub outcome: Outcome,
}

pub struct Client {
    pub idx: usize,
    pub keys: Keys,
    pub kind: BackendKind,
    pub db_path: Option<PathBuf>,
    pub cfg: Cfg,
    pub mdk: Option<AnyMdk>,
    pub recorder: Arc<RollbackRecorder>,
    // harness-side tracking (never fed back into the library)
    pub cur: Option<StateKey>,
    pub reached: HashSet<StateKey>,
    /// for every state the client has been in: the step at which it was entered last
    pub entered_at: HashMap<StateKey, usize>,
    pub pending_props: Vec<usize>,
    /// proposals held pending, per state (a rollback restores the queue of that state)
    pub props_by_state: HashMap<StateKey, Vec<usize>>,
    /// membership stint: incremented every time the client notices its eviction; states reached
    /// afterwards (after a re-invitation) belong to a new stint with fresh key material
    pub stint: u32,
    pub reached_stint: HashMap<StateKey, u32>,
    pub own_pending: Option<usize>,
    /// the own commit that was pending when the client left a state: a rollback to that state
    /// restores the group with that commit pending again
    pub pending_by_state: HashMap<StateKey, Option<usize>>,
    pub delivered: HashMap<usize, DeliveryRec>,
    pub immediate: Vec<usize>,
    pub restarts: Vec<usize>,
    pub rollbacks: Vec<RollbackObs>,
    pub rollbacks_seen: usize,
    /// commits this client applied, as (relay idx, delivery sequence number (0 for local merges), state before)
    pub applied: Vec<(usize, usize, Option<StateKey>)>,
    /// plan step of each entry of `applied`
    pub applied_steps: Vec<usize>,
    pub evicted_at: Option<usize>,
    /// relay index of the commit whose processing made the group inactive here
    pub evicted_by: Option<usize>,
    pub key_packages: Vec<Event>,
}

impl Client {
    pub fn pk_hex(&self) -> String {
        self.keys.public_key().to_hex()
    }
    pub fn mdk(&self) -> &AnyMdk {
        self.mdk.as_ref().expect("client is open")
    }
}

// ---------------------------------------------------------------------------------------------
// relay log
// ---------------------------------------------------------------------------------------------

#[derive(Clone, Copy, Debug, PartialEq, Eq, Hash, Serialize, Deserialize)]
pub enum Class {
    App,
    Proposal,
    Commit,
    /// produced by the rogue toolkit (not by a library call)
    Crafted,
}

/// What a commit / proposal event names (known to the harness because it made the call).
#[derive(Clone, Debug, Default, PartialEq, Eq)]
pub struct Named {
    pub added: Vec<String>,
    pub removed: Vec<String>,
    pub data_change: bool,
    /// `update_group_data`: the fields the call named (empty = not tracked)
    pub data_fields: Vec<String>,
    /// members whose own leave request this (auto-)commit carries out
    pub leave_of: Vec<String>,
    pub proposes_remove: Vec<String>,
    pub proposes_add: Vec<String>,
    pub identity_change: bool,
    pub rogue: Option<String>,
}

/// A rumor whose author / id fields were chosen by a malicious member.
#[derive(Clone, Debug, PartialEq, Eq)]
pub struct Forged {
    pub claimed_pubkey: String,
    pub preset_id: Option<String>,
    pub collides_with: Option<usize>,
}

#[derive(Clone, Debug)]
pub struct RelayEvent {
    pub ev: Event,
    pub author: usize,
    pub class: Class,
    pub base: Option<StateKey>,
    /// proposals (relay indices) the author held pending when it committed
    pub deps: Vec<usize>,
    pub rumor: Option<UnsignedEvent>,
    pub step: usize,
    /// free-text description of what the author did
    pub what: String,
    pub auto_commit: bool,
    /// the author cleared this pending commit before anyone saw it (publish failed)
    pub withdrawn: bool,
    pub named: Named,
    pub forged: Option<Forged>,
    /// this event re-wraps the MLS ciphertext of another relay event
    pub replay_of: Option<usize>,
    /// for events of another group than the world's main one
    pub other_group: bool,
    /// the members of the group as the author saw them when it created the event
    pub roster_at_send: Vec<String>,
    /// application messages: position in the sender's ratchet for that epoch (how many
    /// application messages the author had created in the same state before this one)
    pub generation: Option<u32>,
}

#[derive(Clone, Debug)]
pub struct WelcomeRec {
    pub to: usize,
    pub wrapper: EventId,
    pub rumor: UnsignedEvent,
    pub from_relay: Option<usize>,
    pub processed: bool,
    pub answered: bool,
}

#[derive(Clone, Debug, PartialEq, Eq)]
pub enum Outcome {
    App(String),
    Commit,
    AutoCommit,
    PendingProposal,
    Ignored,
    ExternalJoin,
    Unprocessable,
    PreviouslyFailed,
    Err(String),
    Panic(String),
}

impl Outcome {
    pub fn is_failure_class(&self) -> bool {
        matches!(
            self,
            Outcome::Unprocessable
                | Outcome::PreviouslyFailed
                | Outcome::Ignored
                | Outcome::Err(_)
                | Outcome::Panic(_)
        )
    }
    pub fn tag(&self) -> &'static str {
        match self {
            Outcome::App(_) => "app",
            Outcome::Commit => "commit",
            Outcome::AutoCommit => "auto-commit",
            Outcome::PendingProposal => "pending-proposal",
            Outcome::Ignored => "ignored",
            Outcome::ExternalJoin => "external-join",
            Outcome::Unprocessable => "unprocessable",
            Outcome::PreviouslyFailed => "previously-failed",
            Outcome::Err(_) => "err",
            Outcome::Panic(_) => "panic",
        }
    }
}

// ---------------------------------------------------------------------------------------------
// plans
// ---------------------------------------------------------------------------------------------

#[derive(Clone, Copy, Debug, PartialEq, Eq, Hash, Serialize, Deserialize)]
pub enum Apply {
    /// keep the pending commit until the own event comes back from the relay
    Echo,
    /// `merge_pending_commit` right after "publishing"
    Immediate,
}

#[derive(Clone, Debug, PartialEq, Eq, Hash, Serialize, Deserialize)]
pub enum DataChange {
    Name(u8),
    Description(u8),
    Relays(u8),
    RotateId(u8),
    Image(u8),
    ClearImage,
    /// toggle admin-ness of member (selector), never demoting the last admin
    ToggleAdmin(u16),
    /// relay lists in unusual spellings (trailing slash, port and path, upper-case host, ws
    /// scheme, two spellings of one relay, a blank in the path)
    RelayShapes(u8),
    /// only some of the image fields (bit 0 hash, 1 key, 2 nonce, 3 upload key), the others stay
    ImagePart(u8, u8),
}

#[derive(Clone, Debug, PartialEq, Eq, Hash, Serialize, Deserialize)]
pub enum Op {
    Msg {
        m: u16,
        kind: u8,
        at: u8,
        tag: u8,
    },
    SelfUpdate {
        m: u16,
        ts: u8,
        apply: Apply,
    },
    Data {
        m: u16,
        ts: u8,
        apply: Apply,
        change: DataChange,
    },
    Add {
        m: u16,
        ts: u8,
        apply: Apply,
        /// 1 = a second newcomer in the same call
        #[serde(default)]
        extra: u8,
    },
    Remove {
        m: u16,
        target: u16,
        ts: u8,
        apply: Apply,
        /// number of further members named in the same call (0..=2), picked by rotations of
        /// `target`; the order in which the keys are passed is the order picked
        #[serde(default)]
        extra: u8,
    },
    Leave {
        m: u16,
        ts: u8,
    },
    /// hand client `m` one relay event it has not been given yet (selector over the deliverable set)
    Deliver {
        m: u16,
        sel: u16,
    },
    /// hand client `m` again an event it has been given before
    Redeliver {
        m: u16,
        sel: u16,
        times: u8,
    },
    /// hand client `m` its own pending commit event
    SelfEcho {
        m: u16,
    },
    /// hand client `m` everything deliverable, in publication order
    CatchUp {
        m: u16,
    },
    /// every client catches up (a calm period)
    Sync,
    MergePending {
        m: u16,
    },
    ClearPending {
        m: u16,
    },
    /// process (and answer) the next unanswered invitation of joiner `j`
    Welcome {
        j: u16,
        accept: bool,
    },
    Restart {
        m: u16,
    },
    /// a commit built directly with OpenMLS by client `m` (whatever its role)
    RogueCommit {
        m: u16,
        kind: crate::rogue::RogueCommit,
        ts: u8,
        target: u16,
    },
    RogueProposal {
        m: u16,
        kind: crate::rogue::RogueProposal,
        ts: u8,
        target: u16,
    },
    /// a message whose rumor carries a chosen pubkey (0 own, 1 another member, 2 outsider)
    /// and a chosen id (0 none, 1 random, 2 id of a stored message of another author,
    /// 3 id of an own earlier message)
    RogueMsg {
        m: u16,
        pubkey_sel: u8,
        id_sel: u8,
        sel: u16,
        kind: u8,
    },
    /// re-wrap the MLS ciphertext of an event client `m` can open in a fresh wrapper
    Replay {
        m: u16,
        sel: u16,
    },
    /// client `m` mutates an event it can open and hands the result to client `v` at once
    Hostile {
        m: u16,
        v: u16,
        sel: u16,
        mutation: HostileMut,
    },
    /// the stored rollback snapshots of client `m`'s group disappear behind its back - what a
    /// second instance on the same database (an app extension pruning at start-up) does; the next
    /// commit race at that client then runs into a rollback that fails
    SnapshotsVanish {
        m: u16,
        /// only the oldest stored snapshot disappears (the others stay)
        #[serde(default)]
        only_oldest: bool,
    },
    /// `n` application messages by one member in a row (so that deliveries can skip far ahead in
    /// the sender's ratchet)
    Burst { m: u16, n: u8 },
    /// traffic of / confusion with the second group
    Side(SideOp),
    /// client `m` creates a further group of its own (no other members). With `collide` the relay
    /// list holds two URLs that differ as URLs but print the same text, which the SQLite backend
    /// cannot store: the call fails half-way there - and whatever it leaves behind must not
    /// affect later calls or what survives a restart
    SoloGroup { m: u16, collide: bool },
}

/// one structure-aware mutation of a valid kind-445 event
#[derive(Clone, Copy, Debug, PartialEq, Eq, Hash, Serialize, Deserialize)]
pub enum HostileMut {
    // ---- outer event
    KindChange,
    TsZero,
    TsFarFuture,
    TsTooOld,
    NoHTag,
    TwoHTags,
    HNotHex,
    HUpperCase,
    HShort,
    HOfUnknownGroup,
    /// 64 bytes as required, but with one multi-byte character inside
    HSameLengthNonAscii(u8),
    ContentNotBase64,
    ContentTruncated,
    ContentEmpty,
    // ---- inner MLS bytes, re-encrypted under the right exporter secret
    InnerEmpty,
    InnerRandom(u8),
    InnerBitFlip(u16),
    InnerTruncate(u8),
    InnerExtend(u8),
    /// change the epoch in the clear MLS framing header
    HeaderEpoch(i8),
    /// change the content type in the clear MLS framing header (1 application, 2 proposal, 3 commit)
    HeaderContentType(u8),
    /// change the MLS group id in the framing header
    HeaderGroupId,
    /// keep the bytes, back-date the wrapper so it "wins" MIP-03
    BackdatedCopy,
}

#[derive(Clone, Copy, Debug, PartialEq, Eq, Hash, Serialize, Deserialize)]
pub enum Regime {
    Causal,
    Unrestricted,
}

#[derive(Clone, Debug, PartialEq, Eq, Hash, Serialize, Deserialize)]
pub struct Setup {
    /// number of initial members (incl. creator), excluding the reference replica
    pub members: u8,
    /// bitmask over members 1.. of additional admins (creator is always admin)
    pub admin_mask: u8,
    pub backends: Vec<BackendKind>,
    pub spares: u8,
    pub cfg: Cfg,
    pub regime: Regime,
    pub with_reference: bool,
    /// make the last initial member a passive, non-admin SQLite client and mirror every
    /// delivery to a never-restarted twin opened on a copy of its database (C11)
    #[serde(default)]
    pub twin: bool,
    /// second live group shared by some clients: 0 none; bits 0..6 select main-group clients,
    /// bit 7 adds the last spare as a member of that group only (see world_side.rs)
    #[serde(default)]
    pub side: u8,
}

#[derive(Clone, Debug, PartialEq, Eq, Hash, Serialize, Deserialize)]
pub struct Plan {
    pub setup: Setup,
    pub ops: Vec<Op>,
}

// ---------------------------------------------------------------------------------------------
// the world
// ---------------------------------------------------------------------------------------------

pub struct TmpDir(pub PathBuf);
impl Drop for TmpDir {
    fn drop(&mut self) {
        let _ = std::fs::remove_dir_all(&self.0);
    }
}

static DIR_COUNTER: std::sync::atomic::AtomicU64 = std::sync::atomic::AtomicU64::new(0);

pub fn scratch_dir(tag: &str) -> TmpDir {
    let base = if std::path::Path::new("/dev/shm").is_dir() {
        PathBuf::from("/dev/shm")
    } else {
        std::env::temp_dir()
    };
    let n = DIR_COUNTER.fetch_add(1, std::sync::atomic::Ordering::SeqCst);
    let p = base.join(format!("vcheck-{}-{}-{}", std::process::id(), tag, n));
    std::fs::create_dir_all(&p).expect("create scratch dir");
    TmpDir(p)
}

/// Remove scratch dirs left by dead processes of earlier runs.
pub fn sweep_stale_scratch() {
    for base in ["/dev/shm", "/tmp"] {
        if let Ok(rd) = std::fs::read_dir(base) {
            for e in rd.flatten() {
                let name = e.file_name().to_string_lossy().to_string();
                if let Some(rest) = name.strip_prefix("vcheck-") {
                    if let Some(pid) = rest.split('-').next().and_then(|p| p.parse::<u32>().ok()) {
                        if pid != std::process::id()
                            && !std::path::Path::new(&format!("/proc/{pid}")).exists()
                        {
                            let _ = std::fs::remove_dir_all(e.path());
                        }
                    }
                }
            }
        }
    }
}

pub trait Observer {
    /// called after every library call made on behalf of a plan step
    fn after_call(&mut self, _w: &World, _who: usize, _what: &str) -> Result<(), Failure> {
        Ok(())
    }
    /// called around a delivery: `before` is the full fingerprint before the call (only
    /// computed when `wants_before` returns true)
    fn wants_before(&self) -> bool {
        false
    }
    fn after_delivery(
        &mut self,
        _w: &World,
        _who: usize,
        _idx: usize,
        _before: Option<&Vec<Full>>,
        _outcome: &Outcome,
        _redelivery: bool,
    ) -> Result<(), Failure> {
        Ok(())
    }
}

pub struct NoObserver;
impl Observer for NoObserver {}

#[derive(Clone, Debug)]
pub struct Failure {
    pub clause: String,
    pub detail: String,
}

impl Failure {
    pub fn new(clause: &str, detail: impl Into<String>) -> Self {
        Failure {
            clause: clause.to_string(),
            detail: detail.into(),
        }
    }
}

pub struct World {
    pub dir: TmpDir,
    pub clients: Vec<Client>,
    pub n_members: usize,
    pub reference: Option<usize>,
    pub first_spare: usize,
    pub end_spare: usize,
    pub gid: GroupId,
    /// further groups some clients are in (for cross-group checks)
    pub extra_gids: Vec<GroupId>,
    pub relay: Vec<RelayEvent>,
    pub welcomes: Vec<WelcomeRec>,
    pub t0: u64,
    pub step: usize,
    pub regime: Regime,
    pub trace: Vec<String>,
    pub counters: BTreeMap<String, u64>,
    pub invited: HashSet<usize>,
    wrapper_counter: u64,
    pub panics: Vec<String>,
    pub s0: StateKey,
    pub setup: Setup,
    /// no exclusion of known findings by construction (witness runs)
    pub strict: bool,
    pub debug_logs: bool,
    /// incremented for every delivery (finer than `step`)
    pub delivery_seq: usize,
    /// clients that never act locally (they only receive)
    pub passive: HashSet<usize>,
    /// (restarting client, its never-restarted twin)
    pub twin: Option<(usize, usize)>,
    pub twin_checks: u64,
    pub twin_excused: u64,
    /// when set: Display and Debug of every error and Debug of every processing result (C14)
    pub leak_sink: Option<Vec<String>>,
    /// the receiver's own pending commit (relay index) just before the current delivery
    pub own_pending_before_delivery: Option<usize>,
    pub side: Option<side::SideGroup>,
    /// names of stored snapshots the harness removed behind a client's back
    pub vanished: HashMap<usize, BTreeSet<String>>,
}

pub fn relay_url(n: u8) -> RelayUrl {
    RelayUrl::parse(&format!("wss://relay{}.example.com", n % 5)).unwrap()
}

pub fn open_client_mdk(
    kind: BackendKind,
    db_path: Option<&PathBuf>,
    cfg: &Cfg,
    recorder: Arc<RollbackRecorder>,
) -> Result<AnyMdk, String> {
    Ok(match kind {
        BackendKind::Mem => AnyMdk::Mem(
            MDK::builder(if cfg.mem_msg_limit > 0 {
                MdkMemoryStorage::with_limits(mdk_memory_storage::ValidationLimits { max_messages_per_group: cfg.mem_msg_limit, ..Default::default() })
            } else {
                MdkMemoryStorage::default()
            })
                .with_config(cfg.to_mdk())
                .with_callback(recorder)
                .build(),
        ),
        BackendKind::Sql | BackendKind::SqlKey | BackendKind::SqlKeyring => {
            let path = db_path.expect("sql client has a path");
            let st = match kind {
                BackendKind::Sql => MdkSqliteStorage::new_unencrypted(path),
                BackendKind::SqlKey => MdkSqliteStorage::new_with_key(path, mdk_sqlite_storage::EncryptionConfig::new(key_for_path(path))),
                _ => {
                    ensure_mock_keyring();
                    MdkSqliteStorage::new(path, KEYRING_SERVICE, &path.to_string_lossy())
                }
            }
            .map_err(|e| format!("open sqlite: {e}"))?;
            AnyMdk::Sql(
                MDK::builder(st)
                    .with_config(cfg.to_mdk())
                    .with_callback(recorder)
                    .build(),
            )
        }
    })
}

fn panic_text(p: Box<dyn std::any::Any + Send>) -> String {
    if let Some(s) = p.downcast_ref::<&str>() {
        s.to_string()
    } else if let Some(s) = p.downcast_ref::<String>() {
        s.clone()
    } else {
        "<non-string panic payload>".into()
    }
}

/// monotone index mapping (shrinks towards earlier elements)
pub fn pick(sel: u16, len: usize) -> Option<usize> {
    if len == 0 {
        None
    } else {
        Some(((sel as usize) * len) >> 16)
    }
}

impl World {
    pub fn new(setup: &Setup) -> Result<World, String> {
        let dir = scratch_dir("w");
        let n_members = (setup.members as usize).clamp(1, 8);
        let n_ref = if setup.with_reference { 1 } else { 0 };
        let total = n_members + n_ref + setup.spares as usize;
        let mut clients = Vec::new();
        for i in 0..total {
            let kind = if setup.with_reference && i == n_members {
                BackendKind::Mem
            } else if setup.twin && n_members >= 2 && i == n_members - 1 {
                BackendKind::Sql
            } else {
                *setup.backends.get(i).unwrap_or(&BackendKind::Mem)
            };
            let keys = Keys::generate();
            let db_path = match kind {
                BackendKind::Mem => None,
                _ => Some(dir.0.join(format!("client{i}.db"))),
            };
            let recorder = Arc::new(RollbackRecorder::default());
            let mdk = open_client_mdk(kind, db_path.as_ref(), &setup.cfg, recorder.clone())?;
            clients.push(Client {
                idx: i,
                keys,
                kind,
                db_path,
                cfg: setup.cfg.clone(),
                mdk: Some(mdk),
                recorder,
                cur: None,
                reached: HashSet::new(),
                entered_at: HashMap::new(),
                pending_props: vec![],
                props_by_state: HashMap::new(),
                stint: 0,
                reached_stint: HashMap::new(),
                own_pending: None,
                pending_by_state: HashMap::new(),
                delivered: HashMap::new(),
                immediate: vec![],
                restarts: vec![],
                rollbacks: vec![],
                rollbacks_seen: 0,
                applied: vec![],
                applied_steps: vec![],
                evicted_at: None,
                evicted_by: None,
                key_packages: vec![],
            });
        }
        let now = Timestamp::now().as_secs();
        let t0 = now - 3600;

        // key packages of the initial invitees
        let mut kp_events = Vec::new();
        for c in clients.iter().take(n_members + n_ref).skip(1) {
            kp_events.push(Self::make_key_package(c)?);
        }
        let mut admins = vec![clients[0].keys.public_key()];
        for i in 1..n_members {
            if setup.twin && i == n_members - 1 {
                continue; // the twinned client is never an admin
            }
            if setup.admin_mask & (1 << (i - 1)) != 0 {
                admins.push(clients[i].keys.public_key());
            }
        }
        let config = NostrGroupConfigData::new(
            "group zero".to_string(),
            "initial description".to_string(),
            None,
            None,
            None,
            vec![relay_url(0)],
            admins,
        );
        let creator_pk = clients[0].keys.public_key();
        let res = on_mdk!(clients[0].mdk(), m => m.create_group(&creator_pk, kp_events, config))
            .map_err(|e| format!("create_group: {e}"))?;
        let gid = res.group.mls_group_id.clone();
        let mut w = World {
            dir,
            clients,
            n_members,
            reference: if setup.with_reference {
                Some(n_members)
            } else {
                None
            },
            first_spare: n_members + n_ref,
            end_spare: n_members + n_ref + setup.spares as usize,
            gid,
            extra_gids: vec![],
            relay: vec![],
            welcomes: vec![],
            t0,
            step: 0,
            regime: setup.regime,
            trace: vec![],
            counters: BTreeMap::new(),
            invited: HashSet::new(),
            wrapper_counter: 0,
            panics: vec![],
            s0: StateKey {
                epoch: 0,
                auth: String::new(),
            },
            setup: setup.clone(),
            strict: false,
            debug_logs: std::env::var("VCHECK_LOGS").is_ok(),
            delivery_seq: 0,
            passive: HashSet::new(),
            twin: None,
            twin_checks: 0,
            twin_excused: 0,
            leak_sink: None,
            own_pending_before_delivery: None,
            side: None,
            vanished: HashMap::new(),
        };
        // deliver the initial welcomes
        for (k, rumor) in res.welcome_rumors.iter().enumerate() {
            let to = k + 1;
            let wrapper = w.next_wrapper_id();
            let c = &w.clients[to];
            let welcome = on_mdk!(c.mdk(), m => m.process_welcome(&wrapper, rumor))
                .map_err(|e| format!("setup process_welcome: {e}"))?;
            on_mdk!(c.mdk(), m => m.accept_welcome(&welcome))
                .map_err(|e| format!("setup accept_welcome: {e}"))?;
        }
        for i in 0..(w.n_members + n_ref) {
            w.refresh(i);
        }
        if setup.twin && w.n_members >= 2 {
            let k = w.n_members - 1;
            let src = w.clients[k].db_path.clone().ok_or("twin subject has no database")?;
            let dst = w.dir.0.join("twin.db");
            std::fs::copy(&src, &dst).map_err(|e| format!("copy database for the twin: {e}"))?;
            let recorder = Arc::new(RollbackRecorder::default());
            let mdk = open_client_mdk(BackendKind::Sql, Some(&dst), &setup.cfg, recorder.clone())?;
            let t = w.clients.len();
            let keys = w.clients[k].keys.clone();
            w.clients.push(Client {
                idx: t,
                keys,
                kind: BackendKind::Sql,
                db_path: Some(dst),
                cfg: setup.cfg.clone(),
                mdk: Some(mdk),
                recorder,
                cur: None,
                reached: HashSet::new(),
                entered_at: HashMap::new(),
                pending_props: vec![],
                props_by_state: HashMap::new(),
                stint: 0,
                reached_stint: HashMap::new(),
                own_pending: None,
                pending_by_state: HashMap::new(),
                delivered: HashMap::new(),
                immediate: vec![],
                restarts: vec![],
                rollbacks: vec![],
                rollbacks_seen: 0,
                applied: vec![],
                applied_steps: vec![],
                evicted_at: None,
                evicted_by: None,
                key_packages: vec![],
            });
            w.refresh(t);
            w.passive.insert(k);
            w.twin = Some((k, t));
        }
        w.s0 = w.clients[0]
            .cur
            .clone()
            .ok_or_else(|| "creator has no state after setup".to_string())?;
        for i in 0..(w.n_members + n_ref) {
            if w.clients[i].cur.as_ref() != Some(&w.s0) {
                return Err(format!("client {i} not in the initial state after setup"));
            }
        }
        w.setup_side()?;
        Ok(w)
    }

    pub fn make_key_package(c: &Client) -> Result<Event, String> {
        let pk = c.keys.public_key();
        let (content, tags, _) =
            on_mdk!(c.mdk(), m => m.create_key_package_for_event(&pk, vec![relay_url(0)]))
                .map_err(|e| format!("create_key_package: {e}"))?;
        EventBuilder::new(Kind::MlsKeyPackage, content)
            .tags(tags)
            .sign_with_keys(&c.keys)
            .map_err(|e| format!("sign key package: {e}"))
    }

    pub fn next_wrapper_id(&mut self) -> EventId {
        self.wrapper_counter += 1;
        let mut h = Sha256::new();
        h.update(b"vcheck-wrapper");
        h.update(self.dir.0.to_string_lossy().as_bytes());
        h.update(self.wrapper_counter.to_be_bytes());
        let d: [u8; 32] = h.finalize().into();
        EventId::from_byte_array(d)
    }

    pub fn sink<E: std::fmt::Display + std::fmt::Debug>(&mut self, e: &E) {
        if let Some(s) = self.leak_sink.as_mut() {
            s.push(format!("{e}"));
            s.push(format!("{e:?}"));
        }
    }

    pub fn count(&mut self, key: &str) {
        *self.counters.entry(key.to_string()).or_insert(0) += 1;
    }

    pub fn note(&mut self, s: String) {
        if self.trace.len() < 4000 {
            self.trace.push(format!("[{}] {}", self.step, s));
        }
    }

    pub fn is_member_client(&self, i: usize) -> bool {
        Some(i) != self.reference
    }

    /// indices of clients that may act (everything except the reference replica)
    pub fn actors(&self) -> Vec<usize> {
        (0..self.clients.len())
            .filter(|i| Some(*i) != self.reference && self.twin.map(|(_, t)| t) != Some(*i))
            .collect()
    }

    pub fn group_state(&self, i: usize) -> Option<GroupState> {
        let c = &self.clients[i];
        let m = c.mdk.as_ref()?;
        on_mdk!(m, m => m.get_group(&self.gid)).ok().flatten().map(|g| g.state)
    }

    pub fn is_active(&self, i: usize) -> bool {
        self.group_state(i) == Some(GroupState::Active)
    }

    pub fn full(&self, i: usize) -> Full {
        on_mdk!(self.clients[i].mdk(), m => fp::full(m, &self.gid))
    }

    /// fingerprints of every group known to the world at client `i` (main group first)
    pub fn full_all(&self, i: usize) -> Vec<Full> {
        let mut v = vec![self.full(i)];
        for g in &self.extra_gids {
            v.push(on_mdk!(self.clients[i].mdk(), m => fp::full(m, g)));
        }
        v
    }

    pub fn level(&self, i: usize) -> Result<Option<GroupLevel>, String> {
        on_mdk!(self.clients[i].mdk(), m => fp::group_level(m, &self.gid))
    }

    /// re-read the client's current MLS state and update harness-side tracking
    pub fn refresh(&mut self, i: usize) {
        let gid = self.gid.clone();
        let step = self.step;
        let state = self.group_state(i);
        let key = if state == Some(GroupState::Active) {
            on_mdk!(self.clients[i].mdk(), m => fp::state_key_of(m, &gid))
        } else {
            None
        };
        let c = &mut self.clients[i];
        if state == Some(GroupState::Inactive) && c.cur.is_some() {
            // (noticed now: what follows after a re-invitation is a new stint)
            c.stint += 1;
            if c.evicted_at.is_none() {
                c.evicted_at = Some(step);
            }
        }
        if key != c.cur {
            if let Some(old) = &c.cur {
                c.props_by_state.insert(old.clone(), c.pending_props.clone());
                c.pending_by_state.insert(old.clone(), c.own_pending);
            }
            if let Some(p) = key.as_ref().and_then(|k| c.pending_by_state.get(k).cloned()) {
                // back in a state it had left (rollback): what was pending then is pending again
                c.own_pending = p;
            }
            c.pending_props = key
                .as_ref()
                .and_then(|k| c.props_by_state.get(k).cloned())
                .unwrap_or_default();
            if let Some(k) = &key {
                c.reached.insert(k.clone());
                c.entered_at.insert(k.clone(), step);
                let st = c.stint;
                c.reached_stint.entry(k.clone()).or_insert(st);
            }
            c.cur = key;
        }
        // has a pending commit disappeared?
        if c.own_pending.is_some() {
            let has = on_mdk!(c.mdk(), m => m.load_mls_group(&gid))
                .ok()
                .flatten()
                .map(|g| g.pending_commit().is_some())
                .unwrap_or(false);
            if !has {
                c.own_pending = None;
            }
        }
    }

    fn collect_rollbacks(&mut self, i: usize, before: &Option<StateKey>, outcome: &Outcome) {
        let step = self.step;
        let c = &mut self.clients[i];
        let log = c.recorder.log.lock().unwrap();
        while c.rollbacks_seen < log.len() {
            let info = &log[c.rollbacks_seen];
            c.rollbacks.push(RollbackObs {
                step,
                state_before: before.clone(),
                target_epoch: info.target_epoch,
                head: info.new_head_event,
                outcome: outcome.clone(),
            });
            c.rollbacks_seen += 1;
        }
    }

    // -----------------------------------------------------------------------------------------
    // local operations
    // -----------------------------------------------------------------------------------------

    fn set_ts(&self, off: u8) {
        mdk_core::verif::set_wrapper_created_at(Some(self.t0 + off as u64));
    }

    fn publish(
        &mut self,
        author: usize,
        class: Class,
        base: Option<StateKey>,
        deps: Vec<usize>,
        ev: Event,
        rumor: Option<UnsignedEvent>,
        what: String,
        auto_commit: bool,
    ) -> usize {
        let idx = self.relay.len();
        let roster = if self.clients[author].mdk.is_some() {
            self.local_members(author)
        } else {
            vec![]
        };
        self.note(format!(
            "publish #{idx} by c{author} {class:?} base={} ts=+{} {what}",
            base.as_ref().map(|b| b.short()).unwrap_or_default(),
            ev.created_at.as_secs().saturating_sub(self.t0)
        ));
        let generation = if class == Class::App {
            Some(
                self.relay
                    .iter()
                    .filter(|e| e.class == Class::App && e.author == author && e.base == base && e.replay_of.is_none() && e.generation.is_some())
                    .count() as u32,
            )
        } else {
            None
        };
        self.relay.push(RelayEvent {
            ev,
            author,
            class,
            base,
            deps,
            rumor,
            step: self.step,
            what,
            auto_commit,
            withdrawn: false,
            named: Named::default(),
            forged: None,
            replay_of: None,
            other_group: false,
            roster_at_send: roster,
            generation,
        });
        idx
    }

    /// publish an application-message event made outside `apply_op` (media announcements)
    pub fn publish_app(&mut self, author: usize, base: Option<StateKey>, ev: Event, rumor: UnsignedEvent, what: String) -> usize {
        self.publish(author, Class::App, base, vec![], ev, Some(rumor), what, false)
    }

    fn publish_commit(
        &mut self,
        m: usize,
        base: Option<StateKey>,
        res: UpdateGroupResult,
        what: String,
        auto: bool,
        added: &[usize],
    ) -> usize {
        let deps = self.clients[m].pending_props.clone();
        let idx = self.publish(
            m,
            Class::Commit,
            base,
            deps,
            res.evolution_event,
            None,
            what,
            auto,
        );
        if let Some(rumors) = res.welcome_rumors {
            for (k, r) in rumors.into_iter().enumerate() {
                if let Some(&to) = added.get(k) {
                    let wrapper = self.next_wrapper_id();
                    self.welcomes.push(WelcomeRec {
                        to,
                        wrapper,
                        rumor: r,
                        from_relay: Some(idx),
                        processed: false,
                        answered: false,
                    });
                }
            }
        }
        self.clients[m].own_pending = Some(idx);
        idx
    }

    fn after_commit_created(
        &mut self,
        m: usize,
        idx: usize,
        apply: Apply,
        obs: &mut dyn Observer,
    ) -> Result<(), Failure> {
        if apply == Apply::Immediate {
            let gid = self.gid.clone();
            let before = self.clients[m].cur.clone();
            let r = on_mdk!(self.clients[m].mdk(), mm => mm.merge_pending_commit(&gid));
            match r {
                Ok(()) => {
                    let step = self.step;
                    self.clients[m].immediate.push(idx);
                    let _ = step;
                    self.clients[m].applied.push((idx, 0, before));
                    let st = self.step;
                    self.clients[m].applied_steps.push(st);
                    self.clients[m].own_pending = None;
                    self.count("apply:immediate");
                    self.note(format!("c{m} merge_pending_commit (immediate) of #{idx}"));
                }
                Err(e) => {
                    self.note(format!("c{m} merge_pending_commit failed: {e}"));
                }
            }
            self.refresh(m);
            obs.after_call(self, m, "merge_pending_commit")?;
        }
        Ok(())
    }

    pub fn member_sel(&self, sel: u16) -> Option<usize> {
        let actors = self.actors();
        pick(sel, actors.len()).map(|k| actors[k])
    }

    /// actors that currently hold the group as Active
    pub fn active_actors(&self) -> Vec<usize> {
        self.actors()
            .into_iter()
            .filter(|&i| self.clients[i].cur.is_some() && !self.passive.contains(&i))
            .collect()
    }

    pub fn active_sel(&self, sel: u16) -> Option<usize> {
        let a = self.active_actors();
        pick(sel, a.len()).map(|k| a[k])
    }

    pub fn is_admin_locally(&self, i: usize) -> bool {
        let pk = self.clients[i].keys.public_key();
        on_mdk!(self.clients[i].mdk(), m => m.get_group(&self.gid))
            .ok()
            .flatten()
            .map(|g| g.admin_pubkeys.contains(&pk))
            .unwrap_or(false)
    }

    /// members as client `i` sees them, ordered by client index (not by random key) so that
    /// selectors mean the same thing in every run of a plan
    pub fn local_members(&self, i: usize) -> Vec<String> {
        let mut v: Vec<String> = on_mdk!(self.clients[i].mdk(), m => m.get_members(&self.gid))
            .map(|s| s.iter().map(|p| p.to_hex()).collect())
            .unwrap_or_default();
        v.sort_by_key(|p| self.client_by_pk(p).unwrap_or(usize::MAX));
        v
    }

    pub fn client_by_pk(&self, pk_hex: &str) -> Option<usize> {
        self.clients.iter().position(|c| c.pk_hex() == pk_hex)
    }

    pub fn apply_op(&mut self, op: &Op, obs: &mut dyn Observer) -> Result<(), Failure> {
        self.step += 1;
        let gid = self.gid.clone();
        match op {
            Op::Msg { m, kind, at, tag } => {
                let Some(m) = self.active_sel(*m) else {
                    return Ok(());
                };
                let pk = self.clients[m].keys.public_key();
                let canary = format!("canary-{}-{}", self.step, m);
                let mut b = EventBuilder::new(Kind::Custom(9 + (*kind % 3) as u16), canary.clone())
                    .custom_created_at(Timestamp::from_secs(self.t0 + 100 + (*at % 3) as u64));
                if *tag % 3 == 1 {
                    b = b.tag(Tag::hashtag(format!("t{}", tag)));
                } else if *tag % 3 == 2 {
                    b = b.tag(Tag::custom(
                        nostr::TagKind::Custom("x-verif".into()),
                        [format!("v{}", tag), "second".to_string()],
                    ));
                }
                let rumor = b.build(pk);
                let base = self.clients[m].cur.clone();
                self.set_ts(10);
                let r = catch_unwind(AssertUnwindSafe(
                    || on_mdk!(self.clients[m].mdk(), mm => mm.create_message(&gid, rumor.clone())),
                ));
                mdk_core::verif::set_wrapper_created_at(None);
                match r {
                    Ok(Ok(ev)) => {
                        let mut stored = rumor.clone();
                        stored.ensure_id();
                        self.publish(
                            m,
                            Class::App,
                            base,
                            vec![],
                            ev,
                            Some(stored),
                            canary,
                            false,
                        );
                        self.count("op:msg");
                    }
                    Ok(Err(e)) => {
                        self.note(format!("c{m} create_message refused: {e}"));
                        self.count("op:msg-refused");
                    }
                    Err(p) => {
                        let t = panic_text(p);
                        self.panics.push(format!("create_message: {t}"));
                        return Err(Failure::new("panic", format!("create_message panicked: {t}")));
                    }
                }
                self.refresh(m);
                obs.after_call(self, m, "create_message")?;
            }
            Op::SelfUpdate { m, ts, apply } => {
                let Some(m) = self.active_sel(*m) else {
                    return Ok(());
                };
                // known finding O9: a non-admin's self-update sweeps foreign pending proposals
                // and is then refused by everyone else; excluded by construction here.
                if !self.strict && !self.is_admin_locally(m) && !self.clients[m].pending_props.is_empty() {
                    self.count("excluded:O9-nonadmin-selfupdate-with-pending-proposals");
                    return Ok(());
                }
                let base = self.clients[m].cur.clone();
                self.set_ts(*ts);
                let r = on_mdk!(self.clients[m].mdk(), mm => mm.self_update(&gid));
                mdk_core::verif::set_wrapper_created_at(None);
                match r {
                    Ok(res) => {
                        let idx =
                            self.publish_commit(m, base, res, "self_update".into(), false, &[]);
                        self.relay[idx].named = Named::default();
                        self.count("op:self_update");
                        obs.after_call(self, m, "self_update")?;
                        self.after_commit_created(m, idx, *apply, obs)?;
                    }
                    Err(e) => {
                        self.sink(&e);
                        self.note(format!("c{m} self_update refused: {e}"));
                        self.count("op:commit-refused");
                    }
                }
                self.refresh(m);
            }
            Op::Data {
                m,
                ts,
                apply,
                change,
            } => {
                let Some(m) = self.active_sel(*m) else {
                    return Ok(());
                };
                let base = self.clients[m].cur.clone();
                let mut upd = NostrGroupDataUpdate::default();
                let what;
                match change {
                    DataChange::Name(n) => {
                        upd.name = Some(format!("name-{n}"));
                        what = format!("name-{n}");
                    }
                    DataChange::Description(n) => {
                        upd.description = Some(format!("description-{n}"));
                        what = format!("description-{n}");
                    }
                    DataChange::Relays(n) => {
                        let mut v = vec![relay_url(*n)];
                        if n % 2 == 0 {
                            v.push(relay_url(n.wrapping_add(1)));
                        }
                        what = format!("relays-{n}");
                        upd.relays = Some(v);
                    }
                    DataChange::RelayShapes(n) => {
                        let texts: Vec<&str> = match n % 7 {
                            // an empty relay set is a value too
                            6 => vec![],
                            0 => vec!["wss://relay7.example.com/"],
                            1 => vec!["wss://relay7.example.com:4848/path/x"],
                            2 => vec!["wss://RELAY8.Example.COM"],
                            3 => vec!["ws://relay9.example.com"],
                            4 => vec!["wss://relay7.example.com", "wss://relay7.example.com/"],
                            _ => vec!["wss://relay7.example.com/a b", "wss://relay6.example.com"],
                        };
                        let v: Vec<RelayUrl> = texts.iter().filter_map(|t| RelayUrl::parse(t).ok()).collect();
                        if v.is_empty() && n % 7 != 6 {
                            return Ok(());
                        }
                        what = format!("relay-shapes-{}", n % 7);
                        upd.relays = Some(v);
                    }
                    DataChange::RotateId(n) => {
                        let mut h = Sha256::new();
                        h.update(self.dir.0.to_string_lossy().as_bytes());
                        h.update([*n]);
                        h.update((self.step as u64).to_be_bytes());
                        let d: [u8; 32] = h.finalize().into();
                        upd.nostr_group_id = Some(d);
                        what = format!("rotate-id-{n}");
                    }
                    DataChange::Image(n) => {
                        let derive = |tag: &str| -> [u8; 32] {
                            let mut h = Sha256::new();
                            h.update(tag.as_bytes());
                            h.update([*n]);
                            h.update(self.dir.0.to_string_lossy().as_bytes());
                            h.finalize().into()
                        };
                        let mut nonce = [0u8; 12];
                        nonce.copy_from_slice(&derive("nonce")[..12]);
                        upd.image_hash = Some(Some(derive("hash")));
                        upd.image_key = Some(Some(derive("key")));
                        upd.image_nonce = Some(Some(nonce));
                        upd.image_upload_key = Some(Some(derive("upload")));
                        what = format!("image-{n}");
                    }
                    DataChange::ImagePart(part, n) => {
                        let derive = |tag: &str| -> [u8; 32] {
                            let mut h = Sha256::new();
                            h.update(b"part");
                            h.update(tag.as_bytes());
                            h.update([*n]);
                            h.update(self.dir.0.to_string_lossy().as_bytes());
                            h.finalize().into()
                        };
                        let part = if part % 16 == 0 { 6 } else { part % 16 };
                        if part & 1 != 0 {
                            upd.image_hash = Some(Some(derive("hash")));
                        }
                        if part & 2 != 0 {
                            upd.image_key = Some(Some(derive("key")));
                        }
                        if part & 4 != 0 {
                            let mut nonce = [0u8; 12];
                            nonce.copy_from_slice(&derive("nonce")[..12]);
                            upd.image_nonce = Some(Some(nonce));
                        }
                        if part & 8 != 0 {
                            upd.image_upload_key = Some(Some(derive("upload")));
                        }
                        what = format!("image-fields-{part:04b}-{n}");
                    }
                    DataChange::ClearImage => {
                        upd.image_hash = Some(None);
                        what = "clear-image".into();
                    }
                    DataChange::ToggleAdmin(sel) => {
                        let members = self.local_members(m);
                        let Some(k) = pick(*sel, members.len()) else {
                            return Ok(());
                        };
                        let target = members[k].clone();
                        // never make the reference replica (or a twinned, passive client) an admin
                        if let Some(r) = self.reference {
                            if self.clients[r].pk_hex() == target {
                                return Ok(());
                            }
                        }
                        if self.passive.iter().any(|&p| self.clients[p].pk_hex() == target) {
                            return Ok(());
                        }
                        let cur = on_mdk!(self.clients[m].mdk(), mm => mm.get_group(&gid))
                            .ok()
                            .flatten()
                            .map(|g| g.admin_pubkeys)
                            .unwrap_or_default();
                        let mut admins: BTreeSet<String> = cur.iter().map(|p| p.to_hex()).collect();
                        if admins.contains(&target) {
                            if admins.len() > 1 {
                                admins.remove(&target);
                            }
                        } else {
                            admins.insert(target.clone());
                        }
                        upd.admins = Some(
                            admins
                                .iter()
                                .filter_map(|h| nostr::PublicKey::from_hex(h).ok())
                                .collect(),
                        );
                        what = format!("toggle-admin-{}", crate::fingerprint::sh(&target, 6));
                    }
                }
                let mut data_fields: Vec<String> = vec![];
                for (name, named) in [
                    ("name", upd.name.is_some()),
                    ("description", upd.description.is_some()),
                    ("relays", upd.relays.is_some()),
                    ("admins", upd.admins.is_some()),
                    ("nostr_group_id", upd.nostr_group_id.is_some()),
                    ("image_hash", upd.image_hash.is_some()),
                    ("image_key", upd.image_key.is_some()),
                    ("image_nonce", upd.image_nonce.is_some()),
                    ("image_upload_key", upd.image_upload_key.is_some()),
                ] {
                    if named {
                        data_fields.push(name.to_string());
                    }
                }
                self.set_ts(*ts);
                let r = on_mdk!(self.clients[m].mdk(), mm => mm.update_group_data(&gid, upd));
                mdk_core::verif::set_wrapper_created_at(None);
                match r {
                    Ok(res) => {
                        let idx = self.publish_commit(
                            m,
                            base,
                            res,
                            format!("update_group_data {what}"),
                            false,
                            &[],
                        );
                        self.relay[idx].named = Named {
                            data_change: true,
                            data_fields,
                            ..Named::default()
                        };
                        self.count("op:update_group_data");
                        obs.after_call(self, m, "update_group_data")?;
                        self.after_commit_created(m, idx, *apply, obs)?;
                    }
                    Err(e) => {
                        self.sink(&e);
                        self.note(format!("c{m} update_group_data refused: {e}"));
                        self.count("op:commit-refused");
                    }
                }
                self.refresh(m);
            }
            Op::Add { m, ts, apply, extra } => {
                let Some(m) = self.active_sel(*m) else {
                    return Ok(());
                };
                // next spare(s) that were never invited
                let want = 1 + (*extra % 2) as usize;
                let mut spares: Vec<usize> = (self.first_spare..self.end_spare)
                    .filter(|i| !self.invited.contains(i) && self.clients[*i].mdk.is_some())
                    .take(want)
                    .collect();
                if *extra == 3 {
                    // a second key package of somebody who is a member already (another device of
                    // the same identity): that identity then holds two leaves
                    // (per leaf, not per identity)
                    let mine: Vec<String> = self.level(m).ok().flatten().map(|l| l.members.iter().map(|(_, p)| p.clone()).collect()).unwrap_or_default();
                    let second: Option<usize> = (0..self.end_spare).find(|&i| {
                        Some(i) != self.reference
                            && Some(i) != self.twin.map(|(k, _)| k)
                            && i != m
                            && self.clients[i].mdk.is_some()
                            && self.clients[i].cur.is_some()
                            && mine.iter().filter(|p| **p == self.clients[i].pk_hex()).count() == 1
                    });
                    match second {
                        Some(b) => {
                            spares = vec![b];
                            self.count("op:add_members:second-leaf-for-a-member");
                        }
                        None => return Ok(()),
                    }
                } else if *extra >= 2 {
                    // re-invite somebody who was removed (or left) and has processed it: the adder
                    // no longer lists it, its own copy of the group is inactive
                    let mine = self.local_members(m);
                    let back: Option<usize> = (0..self.end_spare).find(|&i| {
                        Some(i) != self.reference
                            && Some(i) != self.twin.map(|(k, _)| k)
                            && i != m
                            && self.clients[i].mdk.is_some()
                            && self.clients[i].cur.is_none()
                            && self.clients[i].evicted_at.is_some()
                            && self.group_state(i) == Some(GroupState::Inactive)
                            && !mine.contains(&self.clients[i].pk_hex())
                            && !self.welcomes.iter().any(|w| w.to == i && !w.answered)
                            && self.side.as_ref().map(|s| s.side_only != Some(i)).unwrap_or(true)
                    });
                    if let Some(b) = back {
                        spares = vec![b];
                        self.count("op:add_members:re-invitation-of-a-removed-member");
                    }
                }
                if spares.is_empty() {
                    return Ok(());
                }
                let mut kps = vec![];
                for &j in &spares {
                    match Self::make_key_package(&self.clients[j]) {
                        Ok(k) => kps.push(k),
                        Err(_) => return Ok(()),
                    }
                }
                if spares.len() > 1 {
                    self.count("op:add_members:several-in-one-call");
                }
                let base = self.clients[m].cur.clone();
                self.set_ts(*ts);
                let r = on_mdk!(self.clients[m].mdk(), mm => mm.add_members(&gid, &kps));
                mdk_core::verif::set_wrapper_created_at(None);
                match r {
                    Ok(mut res) => {
                        // invitations are matched to their recipients by the key-package event
                        // they reference, not by position
                        if let Some(rumors) = res.welcome_rumors.take() {
                            let mut ordered: Vec<Option<UnsignedEvent>> = vec![None; spares.len()];
                            let mut rest = vec![];
                            for r in rumors {
                                let e = r
                                    .tags
                                    .iter()
                                    .find(|t| t.kind() == nostr::TagKind::e())
                                    .and_then(|t| t.content())
                                    .map(|s| s.to_string());
                                match e.and_then(|e| kps.iter().position(|k| k.id.to_hex() == e)) {
                                    Some(k) if ordered[k].is_none() => ordered[k] = Some(r),
                                    _ => rest.push(r),
                                }
                            }
                            let mut out = vec![];
                            for o in ordered {
                                match o {
                                    Some(r) => out.push(r),
                                    None => {
                                        if !rest.is_empty() {
                                            out.push(rest.remove(0));
                                        }
                                    }
                                }
                            }
                            res.welcome_rumors = Some(out);
                        }
                        for (&j, kp) in spares.iter().zip(kps.iter()) {
                            self.invited.insert(j);
                            self.clients[j].key_packages.push(kp.clone());
                        }
                        let who = spares.iter().map(|j| format!("c{j}")).collect::<Vec<_>>().join("+");
                        let idx = self.publish_commit(m, base, res, format!("add_members {who}"), false, &spares);
                        self.relay[idx].named = Named {
                            added: spares.iter().map(|j| self.clients[*j].pk_hex()).collect(),
                            ..Named::default()
                        };
                        self.count("op:add_members");
                        if *extra == 3 {
                            self.count("op:add_members:second-leaf-for-a-member:committed");
                            // the invitation is for another device of that member, which no client
                            // of the world plays: the member's existing client never answers it
                            // (accepting an invitation into a group one is active in is C16's
                            // subject and a listed finding there)
                            self.welcomes.retain(|w| w.from_relay != Some(idx));
                        }
                        obs.after_call(self, m, "add_members")?;
                        self.after_commit_created(m, idx, *apply, obs)?;
                    }
                    Err(e) => {
                        self.sink(&e);
                        self.note(format!("c{m} add_members refused: {e}"));
                        if *extra == 3 {
                            self.count("op:add_members:second-leaf-for-a-member:refused");
                        }
                        self.count("op:commit-refused");
                    }
                }
                self.refresh(m);
            }
            Op::Remove {
                m,
                target,
                ts,
                apply,
                extra,
            } => {
                let Some(m) = self.active_sel(*m) else {
                    return Ok(());
                };
                let members = self.local_members(m);
                let own = self.clients[m].pk_hex();
                let refpk = self.reference.map(|r| self.clients[r].pk_hex());
                let candidates: Vec<&String> = members
                    .iter()
                    .filter(|p| **p != own && Some((*p).clone()) != refpk)
                    .collect();
                let Some(k) = pick(*target, candidates.len()) else {
                    return Ok(());
                };
                let mut t = candidates[k].clone();
                // an identity that holds two leaves is the interesting one to name
                let leaves: Vec<String> = self.level(m).ok().flatten().map(|l| l.members.iter().map(|(_, p)| p.clone()).collect()).unwrap_or_default();
                if let Some(d) = candidates.iter().find(|p| leaves.iter().filter(|q| q == *p).count() > 1) {
                    if *extra >= 1 || *target % 2 == 0 {
                        t = (*d).clone();
                    }
                }
                if leaves.iter().filter(|q| **q == t).count() > 1 {
                    self.count("op:remove_members:identity-with-two-leaves");
                }
                let mut targets = vec![t.clone()];
                for j in 0..(*extra).min(2) {
                    if let Some(k2) = pick(target.rotate_left(5 + 6 * j as u32), candidates.len()) {
                        if !targets.contains(candidates[k2]) {
                            targets.push(candidates[k2].clone());
                        }
                    }
                }
                let mut tpks = vec![];
                for x in &targets {
                    let Ok(pk) = nostr::PublicKey::from_hex(x) else {
                        return Ok(());
                    };
                    tpks.push(pk);
                }
                if targets.len() > 1 {
                    self.count("op:remove_members:several-in-one-call");
                    let mut sorted = targets.clone();
                    sorted.sort();
                    if sorted != targets {
                        self.count("op:remove_members:keys-not-in-ascending-order");
                    }
                }
                let base = self.clients[m].cur.clone();
                self.set_ts(*ts);
                let r = on_mdk!(self.clients[m].mdk(), mm => mm.remove_members(&gid, &tpks));
                mdk_core::verif::set_wrapper_created_at(None);
                match r {
                    Ok(res) => {
                        let who = targets
                            .iter()
                            .map(|t| self.client_by_pk(t).map(|i| format!("c{i}")).unwrap_or(t.clone()))
                            .collect::<Vec<_>>()
                            .join("+");
                        let idx = self.publish_commit(
                            m,
                            base,
                            res,
                            format!("remove_members {who}"),
                            false,
                            &[],
                        );
                        self.relay[idx].named = Named {
                            removed: targets.clone(),
                            ..Named::default()
                        };
                        self.count("op:remove_members");
                        obs.after_call(self, m, "remove_members")?;
                        self.after_commit_created(m, idx, *apply, obs)?;
                    }
                    Err(e) => {
                        self.sink(&e);
                        self.note(format!("c{m} remove_members refused: {e}"));
                        self.count("op:commit-refused");
                    }
                }
                self.refresh(m);
            }
            Op::Leave { m, ts } => {
                let Some(m) = self.active_sel(*m) else {
                    return Ok(());
                };
                let base = self.clients[m].cur.clone();
                self.set_ts(*ts);
                let r = on_mdk!(self.clients[m].mdk(), mm => mm.leave_group(&gid));
                mdk_core::verif::set_wrapper_created_at(None);
                match r {
                    Ok(res) => {
                        let idx = self.publish(
                            m,
                            Class::Proposal,
                            base,
                            vec![],
                            res.evolution_event,
                            None,
                            "leave_group".into(),
                            false,
                        );
                        self.relay[idx].named = Named {
                            proposes_remove: vec![self.clients[m].pk_hex()],
                            ..Named::default()
                        };
                        self.count("op:leave_group");
                    }
                    Err(e) => {
                        self.sink(&e);
                        self.note(format!("c{m} leave_group refused: {e}"));
                    }
                }
                self.refresh(m);
                obs.after_call(self, m, "leave_group")?;
            }
            Op::Deliver { m, sel } => {
                let Some(m) = self.member_sel(*m) else {
                    return Ok(());
                };
                let cands = self.deliverable(m, false);
                let Some(k) = pick(*sel, cands.len()) else {
                    return Ok(());
                };
                self.deliver(m, cands[k], obs)?;
            }
            Op::Redeliver { m, sel, times } => {
                let Some(m) = self.member_sel(*m) else {
                    return Ok(());
                };
                let cands = self.deliverable(m, true);
                let Some(k) = pick(*sel, cands.len()) else {
                    return Ok(());
                };
                for _ in 0..(1 + *times % 3) {
                    self.deliver(m, cands[k], obs)?;
                }
            }
            Op::SelfEcho { m } => {
                let Some(m) = self.member_sel(*m) else {
                    return Ok(());
                };
                if let Some(idx) = self.clients[m].own_pending {
                    self.deliver(m, idx, obs)?;
                }
            }
            Op::CatchUp { m } => {
                let Some(m) = self.member_sel(*m) else {
                    return Ok(());
                };
                self.catch_up(m, obs)?;
            }
            Op::Sync => {
                for _ in 0..3 {
                    for m in self.actors() {
                        self.catch_up(m, obs)?;
                    }
                }
            }
            Op::MergePending { m } => {
                let Some(m) = self.active_sel(*m) else {
                    return Ok(());
                };
                if let Some(idx) = self.clients[m].own_pending {
                    let before = self.clients[m].cur.clone();
                    let r = on_mdk!(self.clients[m].mdk(), mm => mm.merge_pending_commit(&gid));
                    if r.is_ok() {
                        let step = self.step;
                        self.clients[m].immediate.push(idx);
                        let _ = step;
                        self.clients[m].applied.push((idx, 0, before));
                        let st = self.step;
                        self.clients[m].applied_steps.push(st);
                        self.clients[m].own_pending = None;
                        self.count("apply:merge-later");
                    }
                    self.refresh(m);
                    obs.after_call(self, m, "merge_pending_commit")?;
                }
            }
            Op::ClearPending { m } => {
                let Some(m) = self.active_sel(*m) else {
                    return Ok(());
                };
                // models a failed publish: only possible while nobody has seen the event
                if let Some(idx) = self.clients[m].own_pending {
                    let seen = self.clients.iter().any(|c| c.delivered.contains_key(&idx));
                    let has_welcomes = self.welcomes.iter().any(|w| w.from_relay == Some(idx) && w.processed);
                    if seen || has_welcomes {
                        return Ok(());
                    }
                    let r = on_mdk!(self.clients[m].mdk(), mm => mm.clear_pending_commit(&gid));
                    if r.is_ok() {
                        self.clients[m].own_pending = None;
                        self.relay[idx].withdrawn = true;
                        self.welcomes.retain(|w| w.from_relay != Some(idx));
                        self.count("op:clear_pending");
                        self.note(format!("c{m} clear_pending_commit: #{idx} withdrawn (publish failed)"));
                    }
                    self.refresh(m);
                    obs.after_call(self, m, "clear_pending_commit")?;
                }
            }
            Op::Welcome { j, accept } => {
                let pending: Vec<usize> = self
                    .welcomes
                    .iter()
                    .enumerate()
                    .filter(|(_, w)| !w.answered)
                    .map(|(i, _)| i)
                    .collect();
                let Some(k) = pick(*j, pending.len()) else {
                    return Ok(());
                };
                self.answer_welcome(pending[k], *accept, obs)?;
            }
            Op::Restart { m } => {
                let Some(m) = self.member_sel(*m) else {
                    return Ok(());
                };
                self.restart(m)?;
                obs.after_call(self, m, "restart")?;
            }
            Op::RogueCommit { m, kind, ts, target } => {
                let Some(m) = self.active_sel(*m) else {
                    return Ok(());
                };
                self.rogue_commit(m, *kind, *ts, *target);
            }
            Op::RogueProposal { m, kind, ts, target } => {
                let Some(m) = self.active_sel(*m) else {
                    return Ok(());
                };
                self.rogue_proposal(m, *kind, *ts, *target);
            }
            Op::RogueMsg { m, pubkey_sel, id_sel, sel, kind } => {
                let Some(m) = self.active_sel(*m) else {
                    return Ok(());
                };
                self.rogue_msg(m, *pubkey_sel, *id_sel, *sel, *kind);
                self.refresh(m);
            }
            Op::Replay { m, sel } => {
                let Some(m) = self.active_sel(*m) else {
                    return Ok(());
                };
                self.replay(m, *sel);
            }
            Op::Hostile { m, v, sel, mutation } => {
                let Some(m) = self.active_sel(*m) else {
                    return Ok(());
                };
                let Some(v) = self.member_sel(*v) else {
                    return Ok(());
                };
                if let Some(idx) = self.hostile(m, *sel, *mutation) {
                    if v != m && self.clients[v].mdk.is_some() {
                        self.deliver(v, idx, obs)?;
                    }
                }
            }
            Op::SnapshotsVanish { m, only_oldest } => {
                let Some(m) = self.member_sel(*m) else {
                    return Ok(());
                };
                if self.clients[m].mdk.is_none() {
                    return Ok(());
                }
                let far = Timestamp::now().as_secs() + 1_000_000;
                let gid = self.gid.clone();
                let only_oldest = *only_oldest;
                // what to do with a storage handle: prune everything, or release the oldest one
                fn vanish<S: mdk_storage_traits::MdkStorageProvider>(st: &S, gid: &GroupId, only_oldest: bool, far: u64) -> Vec<String> {
                    let listed = st.list_group_snapshots(gid).unwrap_or_default();
                    if only_oldest {
                        let epoch_of = |n: &str| n.rsplitn(3, '_').nth(1).and_then(|e| e.parse::<u64>().ok()).unwrap_or(u64::MAX);
                        match listed.iter().map(|(n, _)| n.clone()).min_by_key(|n| epoch_of(n)) {
                            Some(n) => {
                                let _ = st.release_group_snapshot(gid, &n);
                                vec![n]
                            }
                            None => vec![],
                        }
                    } else {
                        let _ = st.prune_expired_snapshots(far);
                        listed.into_iter().map(|(n, _)| n).collect()
                    }
                }
                let gone: Vec<String> = match (self.clients[m].kind, self.clients[m].db_path.clone()) {
                    (BackendKind::Mem, _) => on_mdk!(self.clients[m].mdk(), mm => {
                        use openmls_traits::OpenMlsProvider;
                        vanish(mm.provider.storage(), &gid, only_oldest, far)
                    }),
                    (kind, Some(path)) => {
                        // a second handle on the same file
                        let second = match kind {
                            BackendKind::Sql => MdkSqliteStorage::new_unencrypted(&path),
                            BackendKind::SqlKey => MdkSqliteStorage::new_with_key(&path, mdk_sqlite_storage::EncryptionConfig::new(key_for_path(&path))),
                            _ => {
                                ensure_mock_keyring();
                                MdkSqliteStorage::new(&path, KEYRING_SERVICE, &path.to_string_lossy())
                            }
                        };
                        match second {
                            Ok(st) => vanish(&st, &gid, only_oldest, far),
                            Err(_) => vec![],
                        }
                    }
                    _ => vec![],
                };
                let n = gone.len();
                self.vanished.entry(m).or_default().extend(gone);
                self.note(format!("c{m}: {n} stored snapshot(s) pruned behind its back"));
                self.count("op:snapshots-vanish");
            }
            Op::Burst { m, n } => {
                let Some(who) = self.active_sel(*m) else {
                    return Ok(());
                };
                // the same member every time: find a selector that maps to it
                let a = self.active_actors();
                let pos = a.iter().position(|x| *x == who).unwrap_or(0);
                let sel = (((pos as u32) << 16) / a.len().max(1) as u32 + 1) as u16;
                self.count("op:burst");
                for i in 0..(*n).clamp(2, 16) {
                    self.apply_op(&Op::Msg { m: sel, kind: 0, at: i % 3, tag: 0 }, obs)?;
                }
            }
            Op::Side(sop) => {
                self.apply_side_op(sop, obs)?;
            }
            Op::SoloGroup { m, collide } => {
                let Some(m) = self.member_sel(*m) else {
                    return Ok(());
                };
                if self.clients[m].mdk.is_none() || self.twin.map(|(k, _)| k) == Some(m) {
                    return Ok(());
                }
                let pk = self.clients[m].keys.public_key();
                let relays = if *collide {
                    match (RelayUrl::parse("wss://relay.example.com/chat"), RelayUrl::parse("wss://relay.example.com/chat/ ")) {
                        (Ok(a), Ok(b)) => vec![a, b],
                        _ => vec![relay_url(1)],
                    }
                } else {
                    vec![relay_url(1)]
                };
                let config = NostrGroupConfigData::new(format!("solo-{}", self.step), "a group of one".into(), None, None, None, relays, vec![pk]);
                let r = catch_unwind(AssertUnwindSafe(|| on_mdk!(self.clients[m].mdk(), mm => mm.create_group(&pk, vec![], config)).map(|_| ())));
                match r {
                    Ok(Ok(())) => self.count("op:solo-group"),
                    Ok(Err(e)) => {
                        self.sink(&e);
                        self.note(format!("c{m} create_group (solo{}) refused: {e}", if *collide { ", colliding relay texts" } else { "" }));
                        self.count("op:solo-group-refused");
                    }
                    Err(p) => {
                        let t = panic_text(p);
                        self.panics.push(format!("create_group: {t}"));
                        return Err(Failure::new("panic", format!("create_group panicked: {t}")));
                    }
                }
                obs.after_call(self, m, "create_group")?;
            }
        }
        Ok(())
    }

    fn target_identity(&self, m: usize, target: u16, allow_self: bool) -> Option<String> {
        let members = self.local_members(m);
        let own = self.clients[m].pk_hex();
        let refpk = self.reference.map(|r| self.clients[r].pk_hex());
        let c: Vec<String> = members
            .into_iter()
            .filter(|p| (allow_self || *p != own) && Some(p.clone()) != refpk)
            .collect();
        pick(target, c.len()).map(|k| c[k].clone())
    }

    fn outsider_key_package(&mut self) -> Option<(usize, openmls::prelude::KeyPackage)> {
        // an identity that is not in the group from anybody's point of view
        let j = (self.first_spare..self.end_spare)
            .find(|i| !self.invited.contains(i) && self.clients[*i].mdk.is_some())?;
        let ev = Self::make_key_package(&self.clients[j]).ok()?;
        let kp = on_mdk!(self.clients[j].mdk(), mm => mm.parse_key_package(&ev)).ok()?;
        Some((j, kp))
    }

    pub fn rogue_commit(&mut self, m: usize, kind: crate::rogue::RogueCommit, ts: u8, target: u16) {
        use crate::rogue::RogueCommit as K;
        // building a rogue commit replaces (and then clears) the client's pending commit; a
        // client with an honest commit in flight is left alone
        if self.clients[m].own_pending.is_some() {
            return;
        }
        let gid = self.gid.clone();
        let base = self.clients[m].cur.clone();
        let own = self.clients[m].pk_hex();
        let mut named = Named {
            rogue: Some(format!("{kind:?}")),
            ..Named::default()
        };
        let mut tgt = None;
        let mut kp = None;
        match kind {
            K::Add => {
                let Some((j, k)) = self.outsider_key_package() else { return };
                named.added = vec![self.clients[j].pk_hex()];
                kp = Some(k);
            }
            K::Remove | K::Mixed => {
                let Some(t) = self.target_identity(m, target, false) else { return };
                named.removed = vec![t.clone()];
                tgt = Some(t);
            }
            K::GceRename | K::GceSelfPromote => named.data_change = true,
            K::ForeignIdentity => {
                let Some(t) = self.target_identity(m, target, false) else { return };
                named.identity_change = true;
                tgt = Some(t);
            }
            K::PendingByRef => {
                // it carries whatever the client holds
                for d in self.clients[m].pending_props.clone() {
                    named.removed.extend(self.relay[d].named.proposes_remove.clone());
                    named.added.extend(self.relay[d].named.proposes_add.clone());
                }
            }
            K::MalformedIdentity(_) => named.identity_change = true,
            K::SelfUpdate | K::Empty => {}
        }
        let built = on_mdk!(self.clients[m].mdk(), mm => crate::rogue::build_commit(mm, &gid, kind, tgt.as_deref(), kp));
        let built = match built {
            Ok(b) => b,
            Err(e) => {
                self.note(format!("c{m} rogue commit {kind:?} could not be built: {e}"));
                self.count("rogue:build-failed");
                return;
            }
        };
        let ev = match crate::rogue::wrap_445(&built.secret, &built.nostr_group_id, &built.mls_bytes, self.t0 + ts as u64) {
            Ok(e) => e,
            Err(_) => return,
        };
        let deps = if kind == K::PendingByRef { self.clients[m].pending_props.clone() } else { vec![] };
        let idx = self.publish(m, Class::Commit, base, deps, ev, None, format!("rogue commit {kind:?} by {}", crate::fingerprint::sh(&own, 6)), false);
        self.relay[idx].named = named;
        self.count(&format!("rogue:commit:{kind:?}"));
    }

    pub fn rogue_proposal(&mut self, m: usize, kind: crate::rogue::RogueProposal, ts: u8, target: u16) {
        use crate::rogue::RogueProposal as K;
        if self.clients[m].own_pending.is_some() {
            return;
        }
        let gid = self.gid.clone();
        let base = self.clients[m].cur.clone();
        let own = self.clients[m].pk_hex();
        let mut named = Named {
            rogue: Some(format!("{kind:?}")),
            ..Named::default()
        };
        let mut tgt = None;
        let mut kp = None;
        match kind {
            K::Remove => {
                let Some(t) = self.target_identity(m, target, false) else { return };
                named.proposes_remove = vec![t.clone()];
                tgt = Some(t);
            }
            K::Add => {
                let Some((j, k)) = self.outsider_key_package() else { return };
                named.proposes_add = vec![self.clients[j].pk_hex()];
                kp = Some(k);
            }
            K::GceRename | K::SelfUpdate => {}
            K::UpdateForeignIdentity => {
                // the identity of another member, or of somebody who is no member at all
                let t = if target % 2 == 0 {
                    self.target_identity(m, target, false)
                } else {
                    (self.first_spare..self.end_spare).map(|i| self.clients[i].pk_hex()).find(|p| !self.local_members(m).contains(p))
                };
                let Some(t) = t else { return };
                tgt = Some(t);
            }
        }
        let built = on_mdk!(self.clients[m].mdk(), mm => crate::rogue::build_proposal(mm, &gid, kind, tgt.as_deref(), kp));
        let built = match built {
            Ok(b) => b,
            Err(e) => {
                self.note(format!("c{m} rogue proposal {kind:?} could not be built: {e}"));
                self.count("rogue:build-failed");
                return;
            }
        };
        let Ok(ev) = crate::rogue::wrap_445(&built.secret, &built.nostr_group_id, &built.mls_bytes, self.t0 + ts as u64) else { return };
        let idx = self.publish(m, Class::Proposal, base, vec![], ev, None, format!("rogue proposal {kind:?} by {}", crate::fingerprint::sh(&own, 6)), false);
        self.relay[idx].named = named;
        self.count(&format!("rogue:proposal:{kind:?}"));
    }

    pub fn rogue_msg(&mut self, m: usize, pubkey_sel: u8, id_sel: u8, sel: u16, kind: u8) {
        let gid = self.gid.clone();
        let own = self.clients[m].keys.public_key();
        let claimed = match pubkey_sel % 4 {
            0 => own,
            1 => {
                let Some(t) = self.target_identity(m, sel, false) else { return };
                match nostr::PublicKey::from_hex(&t) {
                    Ok(p) => p,
                    Err(_) => return,
                }
            }
            3 => {
                // an identity the sender's own (possibly stale) view does not list: somebody who
                // joined after the epoch the sender is in, else any other client of the world
                let mine = self.local_members(m);
                let mut later: Vec<usize> = vec![];
                for i in 0..self.clients.len() {
                    if i == m || self.clients[i].mdk.is_none() || Some(i) == self.twin.map(|(_, t)| t) {
                        continue;
                    }
                    let pk = self.clients[i].pk_hex();
                    if mine.contains(&pk) {
                        continue;
                    }
                    let known_elsewhere = (0..self.clients.len()).any(|j| j != m && self.clients[j].cur.is_some() && self.local_members(j).contains(&pk));
                    if known_elsewhere {
                        later.push(i);
                    }
                }
                // ... and among those, whoever now sits at the sender's own leaf index in somebody
                // else's tree (the sender was removed there and its leaf re-used)
                let own_leaf = self.full(m).own_leaf;
                let own_hex = self.clients[m].pk_hex();
                let mut successors: Vec<usize> = vec![];
                if let Some(leaf) = own_leaf {
                    for j in 0..self.clients.len() {
                        if j == m || self.clients[j].cur.is_none() {
                            continue;
                        }
                        if let Ok(Some(l)) = self.level(j) {
                            if let Some((_, id)) = l.members.iter().find(|(i, _)| *i == leaf) {
                                if *id != own_hex {
                                    if let Some(c) = self.client_by_pk(id) {
                                        if !successors.contains(&c) {
                                            successors.push(c);
                                        }
                                    }
                                }
                            }
                        }
                    }
                }
                let pool: Vec<usize> = if !successors.is_empty() {
                    self.count("rogue:msg:claims-identity-of-the-member-that-took-over-its-leaf");
                    successors
                } else if later.is_empty() {
                    (0..self.clients.len()).filter(|i| *i != m).collect()
                } else {
                    self.count("rogue:msg:claims-identity-of-a-later-joiner");
                    later
                };
                let Some(k) = pick(sel, pool.len()) else { return };
                self.clients[pool[k]].keys.public_key()
            }
            _ => Keys::generate().public_key(),
        };
        let mut canary = format!("forged-{}-{}", self.step, m);
        // (kind / 3 picks the rumor's own timestamp: ordinary, 0, just beyond i64::MAX, u64::MAX)
        let rumor_ts = match (kind / 3) % 4 {
            0 => self.t0 + 100 + (kind % 3) as u64,
            1 => 0,
            2 => i64::MAX as u64 + 1 + (kind % 3) as u64,
            _ => u64::MAX - (kind % 3) as u64,
        };
        if (kind / 3) % 4 != 0 {
            self.count("rogue:msg:extreme-rumor-timestamp");
        }
        let mut rumor = EventBuilder::new(Kind::Custom(9 + (kind % 3) as u16), canary.clone())
            .custom_created_at(Timestamp::from_secs(rumor_ts))
            .build(claimed);
        let mut collides_with = None;
        match id_sel % 4 {
            0 => rumor.id = None,
            1 => {
                let mut h = Sha256::new();
                h.update(canary.as_bytes());
                let d: [u8; 32] = h.finalize().into();
                rumor.id = Some(EventId::from_byte_array(d));
            }
            k => {
                // id of an existing message: of another author (2) or of the own (3)
                let cands: Vec<usize> = (0..self.relay.len())
                    .filter(|&i| self.relay[i].class == Class::App && self.relay[i].rumor.is_some() && self.relay[i].forged.is_none())
                    .filter(|&i| (self.relay[i].author == m) == (k == 3))
                    .collect();
                let Some(c) = pick(sel, cands.len()) else { return };
                rumor.id = self.relay[cands[c]].rumor.as_ref().and_then(|r| r.id);
                collides_with = Some(cands[c]);
                if k == 2 && kind % 2 == 1 {
                    // not only the id: a byte-identical copy of the other author's rumor, encrypted
                    // from the forger's own leaf
                    if let Some(orig) = self.relay[cands[c]].rumor.clone() {
                        canary = orig.content.clone();
                        rumor = orig;
                        self.count("rogue:msg:exact-copy-of-a-foreign-rumor");
                    }
                }
            }
        }
        let base = self.clients[m].cur.clone();
        self.set_ts(10);
        let r = on_mdk!(self.clients[m].mdk(), mm => mm.create_message(&gid, rumor.clone()));
        mdk_core::verif::set_wrapper_created_at(None);
        if let Ok(ev) = r {
            let mut stored = rumor.clone();
            stored.ensure_id();
            let idx = self.publish(m, Class::App, base, vec![], ev, Some(stored.clone()), canary, false);
            self.relay[idx].forged = Some(Forged {
                claimed_pubkey: claimed.to_hex(),
                preset_id: rumor.id.map(|i| i.to_hex()),
                collides_with,
            });
            self.count(&format!("rogue:msg:pubkey{}:id{}", pubkey_sel % 4, id_sel % 4));
        }
    }

    /// client `m` opens an event it can open and publishes the same MLS ciphertext in a
    /// fresh wrapper (new nonce, new ephemeral signer, new outer id)
    pub fn replay(&mut self, m: usize, sel: u16) {
        let gid = self.gid.clone();
        let cands: Vec<usize> = (0..self.relay.len())
            .filter(|&i| !self.relay[i].withdrawn && self.relay[i].replay_of.is_none())
            .collect();
        let Some(k) = pick(sel, cands.len()) else { return };
        let src = cands[k];
        let cur_epoch = self.clients[m].cur.as_ref().map(|c| c.epoch).unwrap_or(0);
        let mut opened = None;
        for e in (0..=cur_epoch).rev() {
            let sec = on_mdk!(self.clients[m].mdk(), mm => crate::rogue::stored_exporter_secret(mm, &gid, e));
            if let Some(sec) = sec {
                if let Some(bytes) = crate::rogue::unwrap_445(&sec, &self.relay[src].ev) {
                    opened = Some((sec, bytes));
                    break;
                }
            }
        }
        let Some((sec, bytes)) = opened else { return };
        let nostr_gid = {
            let tag_hex = self.relay[src]
                .ev
                .tags
                .iter()
                .find(|t| t.kind() == nostr::TagKind::h())
                .and_then(|t| t.content())
                .unwrap_or("")
                .to_string();
            let mut a = [0u8; 32];
            match hex::decode(&tag_hex) {
                Ok(v) if v.len() == 32 => a.copy_from_slice(&v),
                _ => return,
            }
            a
        };
        let ts = self.relay[src].ev.created_at.as_secs();
        let Ok(ev) = crate::rogue::wrap_445(&sec, &nostr_gid, &bytes, ts) else { return };
        let e = self.relay[src].clone();
        let idx = self.publish(m, e.class, e.base.clone(), e.deps.clone(), ev, e.rumor.clone(), format!("replay of #{src} ({})", e.what), false);
        self.relay[idx].named = e.named.clone();
        self.relay[idx].forged = e.forged.clone();
        self.relay[idx].replay_of = Some(src);
        self.relay[idx].generation = self.relay[src].generation;
        self.count("rogue:replay");
    }

    pub fn restart(&mut self, m: usize) -> Result<(), Failure> {
        if !self.clients[m].kind.is_sql() {
            return Ok(());
        }
        let before = self.full_all(m).iter().map(|f| f.without_clock()).collect::<Vec<_>>();
        let everything_before = self.all_groups_projection(m);
        let pending_before: Vec<String> = on_mdk!(self.clients[m].mdk(), mm => mm.get_pending_welcomes(None))
            .unwrap_or_default()
            .iter()
            .map(|w| w.id.to_hex())
            .collect();
        let c = &mut self.clients[m];
        c.mdk = None; // drops MDK and storage, closing the connection
        let recorder = c.recorder.clone();
        match open_client_mdk(c.kind, c.db_path.as_ref(), &c.cfg, recorder) {
            Ok(mdk) => c.mdk = Some(mdk),
            Err(e) => {
                return Err(Failure::new(
                    "reopen-failed",
                    format!("client {m}: reopening the database failed: {e}"),
                ));
            }
        }
        // a storage call that is refused before a restart is refused after it as well: a message
        // for a group the store does not know (the reopened connection must enforce the same
        // integrity rules as the one that created the file)
        {
            use mdk_storage_traits::messages::MessageStorage;
            use openmls_traits::OpenMlsProvider;
            let pk = self.clients[m].keys.public_key();
            let ts = nostr::Timestamp::from_secs(self.t0);
            let id = nostr::EventId::from_byte_array([0xF0; 32]);
            let mut ev = UnsignedEvent::new(pk, ts, Kind::Custom(9), vec![], "orphan".to_string());
            ev.id = Some(id);
            let orphan = mdk_storage_traits::messages::types::Message {
                id,
                pubkey: pk,
                kind: Kind::Custom(9),
                mls_group_id: GroupId::from_slice(&[0xFE, 0xED, 0xFA, 0xCE]),
                created_at: ts,
                processed_at: ts,
                content: "orphan".to_string(),
                tags: nostr::Tags::new(),
                event: ev,
                wrapper_event_id: nostr::EventId::from_byte_array([0xF1; 32]),
                epoch: Some(0),
                state: mdk_storage_traits::messages::types::MessageState::Processed,
            };
            let accepted = on_mdk!(self.clients[m].mdk(), mm => mm.provider.storage().save_message(orphan)).is_ok();
            if accepted {
                return Err(Failure::new(
                    "restart-changed-observable-state",
                    format!("c{m}: after reopening the database the store accepts a message for a group it does not hold; the connection that created the file refuses it"),
                ));
            }
        }
        let step = self.step;
        self.clients[m].restarts.push(step);
        self.count("op:restart");
        self.note(format!("c{m} restarted"));
        let after = self.full_all(m).iter().map(|f| f.without_clock()).collect::<Vec<_>>();
        // opening prunes rollback snapshots older than the configured time-to-live (that is C20's
        // bound, not a restart effect): with a short time-to-live a snapshot may be gone afterwards
        let mut before = before;
        if self.clients[m].cfg.ttl < 86_400 {
            for (b, a) in before.iter_mut().zip(after.iter()) {
                b.snapshots.retain(|s| a.snapshots.contains(s));
            }
        }
        if before != after {
            let d = before
                .iter()
                .zip(after.iter())
                .map(|(b, a)| crate::oracles::diff_full(b, a))
                .collect::<Vec<_>>()
                .join(" | ");
            return Err(Failure::new(
                "restart-changed-observable-state",
                format!("c{m}: closing and reopening the database changed what the API shows: {d}"),
            ));
        }
        let everything_after = self.all_groups_projection(m);
        if everything_before != everything_after {
            return Err(Failure::new(
                "restart-changed-observable-state",
                format!("c{m}: the list of groups (id, name, epoch, state, relays, message count) before the restart {everything_before:?} and after it {everything_after:?}"),
            ));
        }
        let pending_after: Vec<String> = on_mdk!(self.clients[m].mdk(), mm => mm.get_pending_welcomes(None))
            .unwrap_or_default()
            .iter()
            .map(|w| w.id.to_hex())
            .collect();
        if pending_before != pending_after {
            return Err(Failure::new(
                "restart-changed-observable-state",
                format!("c{m}: pending welcomes {pending_before:?} -> {pending_after:?}"),
            ));
        }
        Ok(())
    }

    /// every group the client knows (not only the world's): id, name, epoch, state, relays, number of messages
    pub fn all_groups_projection(&self, m: usize) -> Vec<(String, String, u64, String, Vec<String>, usize)> {
        let Some(mdk) = self.clients[m].mdk.as_ref() else { return vec![] };
        let mut v: Vec<_> = on_mdk!(mdk, mm => {
            mm.get_groups().unwrap_or_default().into_iter().map(|g| {
                let mut relays: Vec<String> = mm.get_relays(&g.mls_group_id).map(|r| r.iter().map(|u| u.to_string()).collect()).unwrap_or_default();
                relays.sort();
                let n = mm.get_messages(&g.mls_group_id, None).map(|l| l.len()).unwrap_or(0);
                (hex::encode(g.mls_group_id.as_slice()), g.name.clone(), g.epoch, g.state.as_str().to_string(), relays, n)
            }).collect::<Vec<_>>()
        });
        v.sort();
        v
    }

    pub fn answer_welcome(
        &mut self,
        wi: usize,
        accept: bool,
        obs: &mut dyn Observer,
    ) -> Result<(), Failure> {
        let rec = self.welcomes[wi].clone();
        let to = rec.to;
        let r = on_mdk!(self.clients[to].mdk(), m => m.process_welcome(&rec.wrapper, &rec.rumor));
        self.welcomes[wi].processed = true;
        match r {
            Ok(w) => {
                obs.after_call(self, to, "process_welcome")?;
                let r2 = if accept {
                    on_mdk!(self.clients[to].mdk(), m => m.accept_welcome(&w))
                } else {
                    on_mdk!(self.clients[to].mdk(), m => m.decline_welcome(&w))
                };
                self.welcomes[wi].answered = true;
                self.note(format!(
                    "c{to} {} welcome from #{:?}: {:?}",
                    if accept { "accepts" } else { "declines" },
                    rec.from_relay,
                    r2.as_ref().map_err(|e| e.to_string())
                ));
                self.count(if accept {
                    "op:accept_welcome"
                } else {
                    "op:decline_welcome"
                });
                self.refresh(to);
                obs.after_call(self, to, "answer_welcome")?;
            }
            Err(e) => {
                self.welcomes[wi].answered = true;
                self.note(format!("c{to} process_welcome failed: {e}"));
            }
        }
        Ok(())
    }

    /// client `m` opens event `sel`, mutates it, publishes the result; returns its relay index
    pub fn hostile(&mut self, m: usize, sel: u16, mutation: HostileMut) -> Option<usize> {
        use HostileMut as H;
        let gid = self.gid.clone();
        let cands: Vec<usize> = (0..self.relay.len())
            .filter(|&i| !self.relay[i].withdrawn && self.relay[i].named.rogue.as_deref().map(|r| !r.starts_with("hostile")).unwrap_or(true))
            .collect();
        let src = cands[pick(sel, cands.len())?];
        let cur_epoch = self.clients[m].cur.as_ref().map(|c| c.epoch).unwrap_or(0);
        let mut opened = None;
        for e in (0..=cur_epoch).rev() {
            let sec = on_mdk!(self.clients[m].mdk(), mm => crate::rogue::stored_exporter_secret(mm, &gid, e));
            if let Some(sec) = sec {
                if let Some(bytes) = crate::rogue::unwrap_445(&sec, &self.relay[src].ev) {
                    opened = Some((sec, bytes));
                    break;
                }
            }
        }
        let (sec, bytes) = opened?;
        let orig = self.relay[src].ev.clone();
        let tag_hex = orig.tags.iter().find(|t| t.kind() == nostr::TagKind::h()).and_then(|t| t.content()).unwrap_or("").to_string();
        let mut nostr_gid = [0u8; 32];
        match hex::decode(&tag_hex) {
            Ok(v) if v.len() == 32 => nostr_gid.copy_from_slice(&v),
            _ => return None,
        }
        let ts = orig.created_at.as_secs();
        let now = Timestamp::now().as_secs();
        let keys = crate::rogue::nip44_keys(&sec).ok()?;
        let enc = |b: &[u8]| nostr::nips::nip44::encrypt(keys.secret_key(), &keys.public_key, b, nostr::nips::nip44::Version::default()).ok();
        let build = |content: String, kind: Kind, tags: Vec<Tag>, ts: u64| {
            EventBuilder::new(kind, content).tags(tags).custom_created_at(Timestamp::from_secs(ts)).sign_with_keys(&Keys::generate()).ok()
        };
        let h = |v: String| Tag::custom(nostr::TagKind::h(), [v]);
        let same = orig.content.clone();
        // offsets in the MLS framing: version(2) wire_format(2) group_id<V> epoch(8) content_type(1)
        let gl = if bytes.len() > 5 && bytes[4] < 64 { bytes[4] as usize } else { 0 };
        let epoch_off = 5 + gl;
        let inner_mut = |f: &dyn Fn(&mut Vec<u8>)| {
            let mut b = bytes.clone();
            f(&mut b);
            b
        };
        let (ev, reaches_parser) = match mutation {
            H::KindChange => (build(same, Kind::TextNote, vec![h(tag_hex.clone())], ts)?, false),
            H::TsZero => (build(same, Kind::MlsGroupMessage, vec![h(tag_hex.clone())], 0)?, false),
            H::TsFarFuture => (build(same, Kind::MlsGroupMessage, vec![h(tag_hex.clone())], now + 86_400)?, false),
            H::TsTooOld => (build(same, Kind::MlsGroupMessage, vec![h(tag_hex.clone())], now.saturating_sub(50 * 86_400))?, false),
            H::NoHTag => (build(same, Kind::MlsGroupMessage, vec![], ts)?, false),
            H::TwoHTags => (build(same, Kind::MlsGroupMessage, vec![h(tag_hex.clone()), h(tag_hex.clone())], ts)?, false),
            H::HNotHex => (build(same, Kind::MlsGroupMessage, vec![h("z".repeat(64))], ts)?, false),
            H::HUpperCase => (build(same, Kind::MlsGroupMessage, vec![h(tag_hex.to_uppercase())], ts)?, true),
            H::HShort => (build(same, Kind::MlsGroupMessage, vec![h(tag_hex[..62].to_string())], ts)?, false),
            H::HOfUnknownGroup => (build(same, Kind::MlsGroupMessage, vec![h("ab".repeat(32))], ts)?, false),
            H::HSameLengthNonAscii(n) => {
                let w = 2 + (n as usize) % 3;
                let o = (n as usize / 3) % (tag_hex.len().saturating_sub(w) + 1);
                let ch = ["\u{e9}", "\u{20ac}", "\u{1F600}"][w - 2];
                if !tag_hex.is_ascii() || tag_hex.len() < w {
                    return None;
                }
                (build(same, Kind::MlsGroupMessage, vec![h(format!("{}{}{}", &tag_hex[..o], ch, &tag_hex[o + w..]))], ts)?, false)
            }
            H::ContentNotBase64 => (build("*** not base64 ***".into(), Kind::MlsGroupMessage, vec![h(tag_hex.clone())], ts)?, false),
            H::ContentTruncated => (build(same[..same.len() / 2].to_string(), Kind::MlsGroupMessage, vec![h(tag_hex.clone())], ts)?, false),
            H::ContentEmpty => (build(String::new(), Kind::MlsGroupMessage, vec![h(tag_hex.clone())], ts)?, false),
            H::InnerEmpty => (build(enc(&[0u8; 1])?, Kind::MlsGroupMessage, vec![h(tag_hex.clone())], ts)?, true),
            H::InnerRandom(n) => {
                let mut hsh = Sha256::new();
                hsh.update([n]);
                hsh.update(&bytes);
                let d = hsh.finalize();
                let junk: Vec<u8> = d.iter().cycle().take(1 + n as usize * 7).cloned().collect();
                (build(enc(&junk)?, Kind::MlsGroupMessage, vec![h(tag_hex.clone())], ts)?, true)
            }
            H::InnerBitFlip(p) => {
                let b = inner_mut(&|b| {
                    let i = (p as usize * b.len()) >> 16;
                    b[i] ^= 1 << (p % 8);
                });
                (build(enc(&b)?, Kind::MlsGroupMessage, vec![h(tag_hex.clone())], ts)?, true)
            }
            H::InnerTruncate(n) => {
                let b = inner_mut(&|b| {
                    let keep = b.len().saturating_sub(1 + n as usize);
                    b.truncate(keep.max(1));
                });
                (build(enc(&b)?, Kind::MlsGroupMessage, vec![h(tag_hex.clone())], ts)?, true)
            }
            H::InnerExtend(n) => {
                let b = inner_mut(&|b| b.extend(std::iter::repeat(0xAB).take(1 + n as usize)));
                (build(enc(&b)?, Kind::MlsGroupMessage, vec![h(tag_hex.clone())], ts)?, true)
            }
            H::HeaderEpoch(d) => {
                if gl == 0 || bytes.len() < epoch_off + 9 {
                    return None;
                }
                let b = inner_mut(&|b| {
                    let mut e = [0u8; 8];
                    e.copy_from_slice(&b[epoch_off..epoch_off + 8]);
                    let v = (u64::from_be_bytes(e) as i64 + d as i64).max(0) as u64;
                    b[epoch_off..epoch_off + 8].copy_from_slice(&v.to_be_bytes());
                });
                // back-dated so that it looks like the better MIP-03 candidate
                (build(enc(&b)?, Kind::MlsGroupMessage, vec![h(tag_hex.clone())], self.t0.saturating_sub(100))?, true)
            }
            H::HeaderContentType(t) => {
                if gl == 0 || bytes.len() < epoch_off + 9 {
                    return None;
                }
                let b = inner_mut(&|b| b[epoch_off + 8] = 1 + t % 3);
                (build(enc(&b)?, Kind::MlsGroupMessage, vec![h(tag_hex.clone())], self.t0.saturating_sub(100))?, true)
            }
            H::HeaderGroupId => {
                if gl == 0 {
                    return None;
                }
                let b = inner_mut(&|b| b[5] ^= 0xFF);
                (build(enc(&b)?, Kind::MlsGroupMessage, vec![h(tag_hex.clone())], ts)?, true)
            }
            H::BackdatedCopy => (build(enc(&bytes)?, Kind::MlsGroupMessage, vec![h(tag_hex.clone())], self.t0.saturating_sub(200))?, true),
        };
        let e = self.relay[src].clone();
        let idx = self.publish(m, Class::Crafted, e.base.clone(), vec![], ev, None, format!("hostile {mutation:?} of #{src} ({})", e.what), false);
        self.relay[idx].named = Named {
            rogue: Some(format!("hostile:{}", format!("{mutation:?}").split('(').next().unwrap_or(""))),
            ..Named::default()
        };
        if matches!(mutation, H::BackdatedCopy | H::HUpperCase) {
            // the payload itself is genuine
            self.relay[idx].replay_of = Some(src);
            self.relay[idx].generation = self.relay[src].generation;
            self.relay[idx].rumor = e.rumor.clone();
            self.relay[idx].class = e.class;
            self.relay[idx].named.added = e.named.added.clone();
            self.relay[idx].named.removed = e.named.removed.clone();
            self.relay[idx].named.data_change = e.named.data_change;
            self.relay[idx].named.leave_of = e.named.leave_of.clone();
            self.relay[idx].named.proposes_remove = e.named.proposes_remove.clone();
            self.relay[idx].deps = e.deps.clone();
        }
        self.count(&format!("hostile:{}:{}", format!("{mutation:?}").split('(').next().unwrap_or(""), if reaches_parser { "behind-the-outer-layer" } else { "outer" }));
        Some(idx)
    }

    // -----------------------------------------------------------------------------------------
    // deliveries
    // -----------------------------------------------------------------------------------------

    /// may event `idx` be handed to client `m` now, under the world's regime?
    pub fn causally_ok(&self, m: usize, idx: usize) -> bool {
        let e = &self.relay[idx];
        let c = &self.clients[m];
        match &e.base {
            None => true,
            Some(b) => {
                if !c.reached.contains(b) {
                    return false;
                }
                e.deps.iter().all(|d| c.delivered.contains_key(d))
            }
        }
    }

    /// events that can be handed to `m`: fresh ones (`again == false`) or ones already given
    pub fn deliverable(&self, m: usize, again: bool) -> Vec<usize> {
        let c = &self.clients[m];
        if c.mdk.is_none() {
            return vec![];
        }
        (0..self.relay.len())
            .filter(|i| !self.relay[*i].withdrawn)
            // what an attacker's own client does with its own crafted events is not judged
            .filter(|i| !(self.relay[*i].named.rogue.is_some() && self.relay[*i].author == m))
            .filter(|i| c.delivered.contains_key(i) == again)
            .filter(|i| again || self.regime == Regime::Unrestricted || self.causally_ok(m, *i))
            .collect()
    }

    pub fn catch_up(&mut self, m: usize, obs: &mut dyn Observer) -> Result<(), Failure> {
        // publication (= relay) order: always the earliest event not yet handed over that may be
        // handed over now, so an event made deliverable by an earlier one keeps its place
        let mut guard = 0usize;
        let bound = 4 * self.relay.len() + 8;
        loop {
            let cands = self.deliverable(m, false);
            let Some(&idx) = cands.first() else { break };
            if guard > bound {
                break;
            }
            self.deliver(m, idx, obs)?;
            guard += 1;
        }
        Ok(())
    }

    pub fn deliver(
        &mut self,
        m: usize,
        idx: usize,
        obs: &mut dyn Observer,
    ) -> Result<Outcome, Failure> {
        self.delivery_seq += 1;
        self.own_pending_before_delivery = self.clients[m].own_pending;
        let ev = self.relay[idx].ev.clone();
        let before_key = self.clients[m].cur.clone();
        let redelivery = self.clients[m].delivered.contains_key(&idx);
        let cross_group = self.side.is_some();
        let before_full = if obs.wants_before() || cross_group {
            Some(self.full_all(m))
        } else {
            None
        };
        let routed = {
            let tag_hex = ev
                .tags
                .iter()
                .find(|t| t.kind() == nostr::TagKind::h())
                .and_then(|t| t.content())
                .map(|s| s.to_string());
            let gid = self.gid.clone();
            let rec_hex = on_mdk!(self.clients[m].mdk(), mm => mm.get_group(&gid))
                .ok()
                .flatten()
                .map(|g| hex::encode(g.nostr_group_id));
            tag_hex.is_some() && tag_hex == rec_hex
        };
        let was_active = self.clients[m].cur.is_some();
        // auto-commits get a plan-determined timestamp as well
        mdk_core::verif::set_wrapper_created_at(Some(self.t0 + (self.step as u64 % 6)));
        let debug_logs = self.debug_logs;
        if debug_logs {
            crate::logcap::start();
        }
        let r = catch_unwind(AssertUnwindSafe(
            || on_mdk!(self.clients[m].mdk(), mm => mm.process_message(&ev)),
        ));
        if debug_logs {
            for l in crate::logcap::stop() {
                self.note(format!("    log {} {}: {}", l.level, l.target, l.text));
            }
        }
        mdk_core::verif::set_wrapper_created_at(None);
        let mut emitted: Option<UpdateGroupResult> = None;
        if let Some(sink) = self.leak_sink.as_mut() {
            match &r {
                Ok(Ok(res)) => sink.push(format!("{res:?}")),
                Ok(Err(e)) => {
                    sink.push(format!("{e}"));
                    sink.push(format!("{e:?}"));
                }
                Err(_) => {}
            }
        }
        let outcome = match r {
            Ok(Ok(res)) => match res {
                MessageProcessingResult::ApplicationMessage(msg) => Outcome::App(msg.id.to_hex()),
                MessageProcessingResult::Commit { .. } => Outcome::Commit,
                MessageProcessingResult::Proposal(u) => {
                    emitted = Some(u);
                    Outcome::AutoCommit
                }
                MessageProcessingResult::PendingProposal { .. } => Outcome::PendingProposal,
                MessageProcessingResult::IgnoredProposal { .. } => Outcome::Ignored,
                MessageProcessingResult::ExternalJoinProposal { .. } => Outcome::ExternalJoin,
                MessageProcessingResult::Unprocessable { .. } => Outcome::Unprocessable,
                MessageProcessingResult::PreviouslyFailed => Outcome::PreviouslyFailed,
            },
            Ok(Err(e)) => Outcome::Err(e.to_string()),
            Err(p) => Outcome::Panic(panic_text(p)),
        };
        let step = self.step;
        let base = self.relay[idx].base.clone();
        {
            let restarts = self.clients[m].restarts.len();
            let c = &mut self.clients[m];
            let stint_now = c.stint;
            let reached = base.as_ref().map(|b| c.reached.contains(b)).unwrap_or(true);
            let max_epoch = c.reached.iter().map(|k| k.epoch).max().unwrap_or(0);
            let at_base = base.is_some() && base == before_key;
            c.delivered
                .entry(idx)
                .and_modify(|d| {
                    d.count += 1;
                    d.last_outcome = outcome.clone();
                })
                .or_insert(DeliveryRec {
                    first_seq: self.delivery_seq,
                    first_stint: stint_now,
                    count: 1,
                    first_step: step,
                    first_state: before_key.clone(),
                    first_reached_base: reached,
                    first_at_base: at_base,
                    first_outcome: outcome.clone(),
                    last_outcome: outcome.clone(),
                    first_restarts: restarts,
                    first_routed: routed,
                    max_epoch_before: max_epoch,
                });
        }
        self.collect_rollbacks(m, &before_key, &outcome);
        // tracking of proposals the client now holds
        if matches!(outcome, Outcome::PendingProposal | Outcome::AutoCommit)
            && !self.clients[m].pending_props.contains(&idx)
        {
            self.clients[m].pending_props.push(idx);
        }
        let held = self.clients[m].pending_props.clone();
        self.refresh(m);
        if self.clients[m].cur == before_key {
            // refresh() clears on state change only
            self.clients[m].pending_props = held;
        }
        if matches!(outcome, Outcome::Commit) && self.clients[m].cur != before_key {
            let seq = self.delivery_seq;
            self.clients[m].applied.push((idx, seq, before_key.clone()));
            let st = self.step;
            self.clients[m].applied_steps.push(st);
        }
        if was_active && self.clients[m].cur.is_none() && self.group_state(m) == Some(GroupState::Inactive) {
            self.clients[m].evicted_by = Some(idx);
        }
        if self.clients[m].cur.is_some() {
            self.clients[m].evicted_by = None;
        }
        if self.twin.map(|(_, t)| t) == Some(m) {
            emitted = None; // a twin never publishes
        }
        if let Some(u) = emitted {
            let what = format!("auto-commit of proposal #{idx}");
            let b = self.clients[m].cur.clone();
            let ci = self.publish_commit(m, b, u, what, true, &[]);
            let mut leavers = vec![];
            for d in self.relay[ci].deps.clone() {
                if self.relay[d].what == "leave_group" {
                    leavers.extend(self.relay[d].named.proposes_remove.clone());
                }
            }
            self.relay[ci].named = Named {
                leave_of: leavers,
                ..Named::default()
            };
            self.count("auto-commit");
        }
        self.note(format!(
            "deliver #{idx} -> c{m}: {} {}{}",
            outcome.tag(),
            match &outcome {
                Outcome::Err(e) => e.clone(),
                Outcome::Panic(p) => p.clone(),
                _ => String::new(),
            },
            if self.clients[m].cur != before_key {
                format!(
                    " [{} -> {}]",
                    before_key.as_ref().map(|k| k.short()).unwrap_or("-".into()),
                    self.clients[m]
                        .cur
                        .as_ref()
                        .map(|k| k.short())
                        .unwrap_or("-".into())
                )
            } else {
                String::new()
            }
        ));
        if let Some((k, t)) = self.twin {
            if m == k {
                let tout = self.deliver(t, idx, &mut NoObserver)?;
                if self.twin_excused == 0 {
                    self.twin_checks += 1;
                    let a = self.full(k).without_clock();
                    let b = self.full(t).without_clock();
                    if a != b {
                        // O8: the never-restarted twin can still resolve the race by rollback
                        let fired = |c: &Client| c.rollbacks.iter().any(|r| r.step == self.step && r.head == self.relay[idx].ev.id);
                        // O8 is about a commit applied *before* a restart (its snapshot is re-read
                        // without the commit's timestamp); a commit applied after the last restart
                        // has a live snapshot and must lose the race exactly as at the twin
                        let base = self.relay[idx].base.clone();
                        let displaced_step = {
                            let c = &self.clients[k];
                            c.applied.iter().zip(c.applied_steps.iter()).rev().find(|((_, _, b), _)| base.is_some() && *b == base).map(|(_, s)| *s)
                        };
                        let last_restart = self.clients[k].restarts.last().copied();
                        let displaced_before_restart = match (displaced_step, last_restart) {
                            (Some(a), Some(r)) => a <= r,
                            // the contested commit cannot be identified: leave it to the signature below
                            (None, Some(_)) => true,
                            _ => false,
                        };
                        let o8 = fired(&self.clients[t]) && !fired(&self.clients[k]) && displaced_before_restart;
                        let detail = format!(
                            "after event #{idx} ({}) c{k} (restarted {} time(s), outcome {}) and its twin (never restarted, outcome {}) differ: {}",
                            self.relay[idx].what,
                            self.clients[k].restarts.len(),
                            outcome.tag(),
                            tout.tag(),
                            crate::oracles::diff_full(&b, &a)
                        );
                        if o8 && !self.strict {
                            // from here on the two legitimately (by the listed finding) differ
                            self.twin_excused = 1;
                            self.count("excused:O8-restart-forgets-commit-timestamps");
                        } else if o8 {
                            return Err(Failure::new("twin-differs:O8-restart-forgets-commit-timestamps", detail));
                        } else {
                            return Err(Failure::new("restarted-client-differs-from-never-restarted-twin", detail));
                        }
                    }
                }
            }
        }
        if let Outcome::Panic(p) = &outcome {
            self.panics.push(format!("process_message(#{idx}) at c{m}: {p}"));
            return Err(Failure::new(
                "panic",
                format!("process_message panicked at client {m} on event #{idx}: {p}"),
            ));
        }
        if cross_group {
            self.cross_group_check(m, idx, before_full.as_ref().expect("computed"), &outcome)?;
        }
        obs.after_delivery(self, m, idx, before_full.as_ref(), &outcome, redelivery)?;
        obs.after_call(self, m, "process_message")?;
        Ok(outcome)
    }

    /// with a second group in the world: an event of the main group never changes the other
    /// group, and an event tagged for a group it does not belong to is refused without effect
    fn cross_group_check(&mut self, m: usize, idx: usize, before: &Vec<Full>, outcome: &Outcome) -> Result<(), Failure> {
        let after = self.full_all(m);
        if let Some(s) = self.side.as_mut() {
            s.checks += 1;
        }
        let ev = &self.relay[idx];
        if before[1..] != after[1..] {
            let d = before[1..].iter().zip(after[1..].iter()).map(|(b, a)| crate::oracles::diff_full(b, a)).collect::<Vec<_>>().join(" | ");
            return Err(Failure::new(
                "event-of-one-group-changed-another-group",
                format!(
                    "event #{idx} ({:?}, {}) handed to c{m} ({:?}, step {}, outcome {}) changed the side group there: {d}",
                    ev.class, ev.what, self.clients[m].kind, self.step, outcome.tag()
                ),
            ));
        }
        if ev.other_group {
            if !outcome.is_failure_class() {
                return Err(Failure::new(
                    "event-of-a-foreign-group-accepted",
                    format!("event #{idx} ({}) handed to c{m} ({:?}, step {}): {}", ev.what, self.clients[m].kind, self.step, outcome.tag()),
                ));
            }
            if *before != after {
                let d = before.iter().zip(after.iter()).map(|(b, a)| crate::oracles::diff_full(b, a)).filter(|s| !s.is_empty()).collect::<Vec<_>>().join(" | ");
                return Err(Failure::new(
                    "event-of-a-foreign-group-had-an-effect",
                    format!("event #{idx} ({}) handed to c{m} ({:?}, step {}) was refused ({}) yet the client changed: {d}", ev.what, self.clients[m].kind, self.step, outcome.tag()),
                ));
            }
        }
        Ok(())
    }

    // -----------------------------------------------------------------------------------------
    // quiescence and the reference chain
    // -----------------------------------------------------------------------------------------

    /// Offer every event to every client (forward and reversed, pass after pass) until a whole
    /// pass changes nothing and emits nothing. Returns the number of passes, or None when the
    /// bound was hit.
    pub fn quiesce(&mut self, obs: &mut dyn Observer, max_passes: usize) -> Result<Option<usize>, Failure> {
        // unanswered invitations of clients that hold no active group are accepted first
        for wi in 0..self.welcomes.len() {
            if !self.welcomes[wi].answered && !self.is_active(self.welcomes[wi].to) {
                self.step += 1;
                self.answer_welcome(wi, true, obs)?;
            }
        }
        let actors = self.actors();
        let mut pass = 0;
        loop {
            pass += 1;
            if pass > max_passes {
                return Ok(None);
            }
            self.step += 1;
            let before: Vec<Full> = actors.iter().map(|&i| self.full(i).without_clock()).collect();
            let n_before = self.relay.len();
            let mut order: Vec<usize> = (0..self.relay.len()).collect();
            if pass % 2 == 0 {
                order.reverse();
            }
            for &m in &actors {
                if self.clients[m].mdk.is_none() {
                    continue;
                }
                for &idx in &order {
                    if self.relay[idx].withdrawn
                        || (self.relay[idx].named.rogue.is_some() && self.relay[idx].author == m)
                    {
                        continue;
                    }
                    if self.regime == Regime::Causal
                        && !self.clients[m].delivered.contains_key(&idx)
                        && !self.causally_ok(m, idx)
                    {
                        continue;
                    }
                    self.deliver(m, idx, obs)?;
                }
            }
            let after: Vec<Full> = actors.iter().map(|&i| self.full(i).without_clock()).collect();
            if before == after && self.relay.len() == n_before {
                return Ok(Some(pass));
            }
        }
    }

    /// Walk the MIP-03 chain with the reference replica. Must be called after quiescence.
    pub fn walk_chain(&mut self) -> Result<Vec<ChainState>, Failure> {
        let r = self.reference.expect("world has a reference replica");
        let mut chain = Vec::new();
        let lvl = self
            .level(r)
            .map_err(|e| Failure::new("reference-broken", e))?
            .ok_or_else(|| Failure::new("reference-broken", "reference has no group"))?;
        chain.push(ChainState {
            key: self.clients[r].cur.clone().unwrap(),
            level: lvl,
            commit: None,
            refused: vec![],
        });
        let mut guard = 0;
        loop {
            guard += 1;
            if guard > 200 {
                return Err(Failure::new("reference-broken", "chain walk does not end"));
            }
            let cur = self.clients[r].cur.clone().unwrap();
            // proposals created in this state
            let props: Vec<usize> = (0..self.relay.len())
                .filter(|&i| {
                    self.relay[i].class == Class::Proposal && self.relay[i].base.as_ref() == Some(&cur)
                })
                .collect();
            let mut nobs = NoObserver;
            for p in props {
                if !self.clients[r].delivered.contains_key(&p) {
                    self.step += 1;
                    self.deliver(r, p, &mut nobs)?;
                }
            }
            let mut cands: Vec<usize> = (0..self.relay.len())
                .filter(|&i| {
                    self.relay[i].class == Class::Commit
                        && !self.relay[i].withdrawn
                        && self.relay[i].base.as_ref() == Some(&cur)
                })
                .collect();
            cands.sort_by(|&a, &b| {
                let (ea, eb) = (&self.relay[a].ev, &self.relay[b].ev);
                ea.created_at
                    .as_secs()
                    .cmp(&eb.created_at.as_secs())
                    .then_with(|| ea.id.to_hex().cmp(&eb.id.to_hex()))
            });
            let mut advanced = false;
            let mut refused = vec![];
            for c in cands {
                if self.clients[r].delivered.contains_key(&c) {
                    continue;
                }
                self.step += 1;
                let out = self.deliver(r, c, &mut nobs)?;
                if self.clients[r].cur.as_ref() != Some(&cur) {
                    let lvl = self
                        .level(r)
                        .map_err(|e| Failure::new("reference-broken", e))?
                        .ok_or_else(|| Failure::new("reference-broken", "reference lost its group"))?;
                    chain.push(ChainState {
                        key: self.clients[r].cur.clone().unwrap(),
                        level: lvl,
                        commit: Some(c),
                        refused: std::mem::take(&mut refused),
                    });
                    advanced = true;
                    break;
                } else {
                    refused.push((c, out));
                }
            }
            if !advanced {
                if let Some(last) = chain.last_mut() {
                    last.refused.extend(refused);
                }
                break;
            }
        }
        Ok(chain)
    }
}

#[derive(Clone, Debug)]
pub struct ChainState {
    pub key: StateKey,
    pub level: GroupLevel,
    /// relay index of the commit that led to this state (None for the initial state)
    pub commit: Option<usize>,
    /// candidates on the *previous* state that the reference refused before accepting `commit`
    /// (for the last state: candidates refused on it)
    pub refused: Vec<(usize, Outcome)>,
}

impl ChainState {
    pub fn roster(&self) -> BTreeSet<String> {
        self.level.members.iter().map(|(_, p)| p.clone()).collect()
    }
}
