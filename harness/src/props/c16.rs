//! C16 — invitations are idempotent, consent-gated and cannot disturb existing groups.
//!
//! Cast: Alice (admin of group G, Carol is a member), Dave (admin of group H), Mallory
//! (outsider), Bob (the recipient under test; optionally a member of H from the start).

use std::collections::BTreeMap;

use base64::Engine;
use mdk_core::extension::NostrGroupDataExtension;
use mdk_core::groups::NostrGroupConfigData;
use mdk_storage_traits::GroupId;
use mdk_storage_traits::groups::types::GroupState;
use mdk_storage_traits::welcomes::types::{Welcome, WelcomeState};
use nostr::{EventBuilder, EventId, Keys, Kind, Tag, TagKind, Timestamp, UnsignedEvent};
use openmls::prelude::*;
use openmls_basic_credential::SignatureKeyPair;
use proptest::prelude::*;
use serde::{Deserialize, Serialize};
use sha2::{Digest, Sha256};
use tls_codec::Serialize as _;

use crate::fingerprint::{self as fp, Full};
use crate::on_mdk;
use crate::runner::{Args, CaseReport, Failure, Mode, RunPlan, Spec, Tier, drive, set_last_trace};
use crate::world::{AnyMdk, BackendKind, Cfg, RollbackRecorder, World, open_client_mdk, relay_url, scratch_dir};

#[derive(Clone, Copy, Debug, PartialEq, Eq, Hash, Serialize, Deserialize)]
pub enum Target {
    G,
    H,
    Fresh,
}

#[derive(Clone, Debug, PartialEq, Eq, Hash, Serialize, Deserialize)]
pub enum WStep {
    /// Alice adds Bob to G (only when Bob is not a member from her point of view)
    AliceInvites,
    /// Mallory builds a group of her own with the MLS group id of `mls_id_of` and the Nostr
    /// group id of `nostr_id_of`, and invites Bob into it
    MalloryInvites { mls_id_of: Target, nostr_id_of: Target },
    /// a copy of an existing invitation with one thing broken
    Malformed { inv: u16, how: u8 },
    Process { inv: u16, wrapper: u8 },
    Accept { inv: u16 },
    Decline { inv: u16 },
    AliceMessage,
    DaveMessage,
    AliceRemovesBob,
    BobRestart,
    /// Bob, while an active member of G, fulfils his obligation to rotate his key (self_update,
    /// merged at once, handed to Alice and Carol): a later re-invitation must create a new one
    BobSelfUpdates,
    /// Carol asks to leave G; only Bob (no admin: he queues the request) gets to see it
    CarolProposesLeaving,
}

#[derive(Clone, Debug, PartialEq, Eq, Hash, Serialize, Deserialize)]
pub struct Case {
    pub bob_sql: bool,
    pub bob_in_h: bool,
    pub steps: Vec<WStep>,
}

struct Actor {
    keys: Keys,
    mdk: AnyMdk,
}

impl Actor {
    fn new(kind: BackendKind, path: Option<&std::path::PathBuf>) -> Result<Actor, String> {
        Ok(Actor {
            keys: Keys::generate(),
            mdk: open_client_mdk(kind, path, &Cfg::default(), std::sync::Arc::new(RollbackRecorder::default()))?,
        })
    }
}

#[derive(Clone, Debug, PartialEq, Eq)]
enum InvKind {
    AliceValid { level_at_invite: Box<crate::fingerprint::GroupLevel> },
    Mallory { mls_id_of: Target, nostr_id_of: Target },
    Malformed { of: usize, how: u8 },
}

#[derive(Clone, Debug)]
struct Invitation {
    rumor: UnsignedEvent,
    kind: InvKind,
    mls_gid: Option<GroupId>,
    /// wrapper ids by variant number
    processed_ok: bool,
    returned: BTreeMap<u8, Welcome>,
    answered: Option<bool>,
}

fn wrapper_id(inv: usize, variant: u8, salt: &str) -> EventId {
    let mut h = Sha256::new();
    h.update(salt.as_bytes());
    h.update((inv as u64).to_be_bytes());
    h.update([variant]);
    let d: [u8; 32] = h.finalize().into();
    EventId::from_byte_array(d)
}

fn key_package_event(a: &Actor) -> Result<nostr::Event, String> {
    let pk = a.keys.public_key();
    let (content, tags, _) = on_mdk!(&a.mdk, m => m.create_key_package_for_event(&pk, vec![relay_url(0)])).map_err(|e| e.to_string())?;
    EventBuilder::new(Kind::MlsKeyPackage, content).tags(tags).sign_with_keys(&a.keys).map_err(|e| e.to_string())
}

fn mallory_welcome(
    mallory: &Actor,
    bob_kp_event: &nostr::Event,
    mls_gid: &[u8],
    nostr_gid: [u8; 32],
) -> Result<UnsignedEvent, String> {
    on_mdk!(&mallory.mdk, m => {
        let provider = &m.provider;
        let pk = mallory.keys.public_key();
        let signer = SignatureKeyPair::new(m.ciphersuite.signature_algorithm()).map_err(|e| e.to_string())?;
        signer.store(provider.storage()).map_err(|e| e.to_string())?;
        let cwk = CredentialWithKey {
            credential: BasicCredential::new(pk.to_bytes().to_vec()).into(),
            signature_key: signer.public().into(),
        };
        let mut ext = NostrGroupDataExtension::new("mallory's group", "hostile", [pk], [relay_url(1)], None, None, None, None);
        ext.nostr_group_id = nostr_gid;
        let bytes = ext.verif_to_tls_bytes().map_err(|e| e.to_string())?;
        let exts = Extensions::from_vec(vec![
            Extension::Unknown(0xF2EE, UnknownExtension(bytes)),
            Extension::RequiredCapabilities(RequiredCapabilitiesExtension::new(&[ExtensionType::Unknown(0xF2EE)], &[], &[])),
        ])
        .map_err(|e| e.to_string())?;
        let caps = Capabilities::new(
            None,
            Some(&[m.ciphersuite]),
            Some(&[ExtensionType::LastResort, ExtensionType::Unknown(0xF2EE)]),
            None,
            None,
        );
        let cfg = MlsGroupCreateConfig::builder()
            .ciphersuite(m.ciphersuite)
            .use_ratchet_tree_extension(true)
            .capabilities(caps)
            .with_group_context_extensions(exts)
            .build();
        let mut g = MlsGroup::new_with_group_id(provider, &signer, &cfg, openmls::group::GroupId::from_slice(mls_gid), cwk)
            .map_err(|e| e.to_string())?;
        let kp = m.parse_key_package(bob_kp_event).map_err(|e| e.to_string())?;
        let (_c, welcome, _gi) = g.add_members(provider, &signer, &[kp]).map_err(|e| e.to_string())?;
        let _ = g.merge_pending_commit(provider);
        let wbytes = welcome.tls_serialize_detached().map_err(|e| e.to_string())?;
        let content = base64::engine::general_purpose::STANDARD.encode(wbytes);
        let mut rumor = EventBuilder::new(Kind::MlsWelcome, content)
            .tags(vec![
                Tag::relays(vec![relay_url(1)]),
                Tag::event(bob_kp_event.id),
                Tag::client("mallory/1.0".to_string()),
                Tag::custom(TagKind::Custom("encoding".into()), ["base64"]),
            ])
            .build(pk);
        rumor.ensure_id();
        Ok(rumor)
    })
}

fn malform(src: &UnsignedEvent, how: u8) -> UnsignedEvent {
    let mut r = src.clone();
    let tags: Vec<Tag> = r.tags.iter().cloned().collect();
    match how % 8 {
        0 => r.kind = Kind::TextNote,
        1 => {
            // drop the encoding tag
            r.tags = tags.into_iter().filter(|t| !matches!(t.kind(), TagKind::Custom(ref n) if n.as_ref() == "encoding")).collect();
        }
        2 => {
            // hex instead of base64
            r.tags = tags
                .into_iter()
                .map(|t| if matches!(t.kind(), TagKind::Custom(ref n) if n.as_ref() == "encoding") { Tag::custom(TagKind::Custom("encoding".into()), ["hex"]) } else { t })
                .collect();
        }
        3 => r.content = format!("{}AAAA", &r.content[..r.content.len().saturating_sub(8)]),
        4 => r.content = "not base64 at all !!!".into(),
        5 => {
            r.tags = tags.into_iter().filter(|t| t.kind() != TagKind::Relays).collect();
        }
        6 => {
            // truncated welcome
            let n = r.content.len() / 2;
            r.content = r.content[..n - n % 4].to_string();
        }
        _ => {
            r.tags = tags.into_iter().filter(|t| t.kind() != TagKind::e()).collect();
        }
    }
    // a different rumor: it gets its own id
    r.id = None;
    r.ensure_id();
    r
}

struct Run {
    _dir: crate::world::TmpDir,
    alice: Actor,
    carol: Actor,
    dave: Actor,
    mallory: Actor,
    bob: Actor,
    bob_path: Option<std::path::PathBuf>,
    bob_kind: BackendKind,
    g: GroupId,
    h: GroupId,
    invs: Vec<Invitation>,
    trace: Vec<String>,
    alice_thinks_bob_member: bool,
    counters: BTreeMap<String, u64>,
    classes: std::collections::BTreeSet<String>,
    salt: String,
    msg_n: u64,
}

fn groups_of(a: &Actor) -> Vec<(GroupId, GroupState)> {
    let mut v: Vec<(GroupId, GroupState)> =
        on_mdk!(&a.mdk, m => m.get_groups()).unwrap_or_default().into_iter().map(|g| (g.mls_group_id, g.state)).collect();
    v.sort_by(|a, b| a.0.as_slice().cmp(b.0.as_slice()));
    v
}

fn fulls_of(a: &Actor) -> BTreeMap<Vec<u8>, Full> {
    groups_of(a)
        .into_iter()
        .map(|(g, _)| (g.as_slice().to_vec(), on_mdk!(&a.mdk, m => fp::full(m, &g))))
        .collect()
}

fn pending_welcome_ids(a: &Actor) -> Vec<String> {
    on_mdk!(&a.mdk, m => m.get_pending_welcomes(None)).unwrap_or_default().iter().map(|w| w.id.to_hex()).collect()
}

impl Run {
    fn new(case: &Case) -> Result<Run, String> {
        let dir = scratch_dir("w16");
        let bob_kind = if case.bob_sql { BackendKind::Sql } else { BackendKind::Mem };
        let bob_path = if case.bob_sql { Some(dir.0.join("bob.db")) } else { None };
        let alice = Actor::new(BackendKind::Mem, None)?;
        let carol = Actor::new(BackendKind::Mem, None)?;
        let dave = Actor::new(BackendKind::Mem, None)?;
        let mallory = Actor::new(BackendKind::Mem, None)?;
        let bob = Actor::new(bob_kind, bob_path.as_ref())?;
        // G: Alice + Carol
        let ckp = key_package_event(&carol)?;
        let apk = alice.keys.public_key();
        let res = on_mdk!(&alice.mdk, m => m.create_group(&apk, vec![ckp], NostrGroupConfigData::new("group G".into(), "alice's".into(), None, None, None, vec![relay_url(0)], vec![apk])))
            .map_err(|e| e.to_string())?;
        let g = res.group.mls_group_id.clone();
        let w = on_mdk!(&carol.mdk, m => m.process_welcome(&EventId::all_zeros(), &res.welcome_rumors[0])).map_err(|e| e.to_string())?;
        on_mdk!(&carol.mdk, m => m.accept_welcome(&w)).map_err(|e| e.to_string())?;
        // H: Dave (+ Bob)
        let dpk = dave.keys.public_key();
        let mut kps = vec![];
        if case.bob_in_h {
            kps.push(key_package_event(&bob)?);
        }
        let res = on_mdk!(&dave.mdk, m => m.create_group(&dpk, kps, NostrGroupConfigData::new("group H".into(), "dave's".into(), None, None, None, vec![relay_url(2)], vec![dpk])))
            .map_err(|e| e.to_string())?;
        let h = res.group.mls_group_id.clone();
        if case.bob_in_h {
            let w = on_mdk!(&bob.mdk, m => m.process_welcome(&EventId::from_byte_array([7; 32]), &res.welcome_rumors[0])).map_err(|e| e.to_string())?;
            on_mdk!(&bob.mdk, m => m.accept_welcome(&w)).map_err(|e| e.to_string())?;
        }
        let salt = dir.0.to_string_lossy().to_string();
        Ok(Run {
            _dir: dir,
            alice,
            carol,
            dave,
            mallory,
            bob,
            bob_path,
            bob_kind,
            g,
            h,
            invs: vec![],
            trace: vec![],
            alice_thinks_bob_member: false,
            counters: BTreeMap::new(),
            classes: Default::default(),
            salt,
            msg_n: 0,
        })
    }

    fn note(&mut self, s: String) {
        self.trace.push(s);
    }

    fn bob_state(&self, gid: &GroupId) -> Option<GroupState> {
        on_mdk!(&self.bob.mdk, m => m.get_group(gid)).ok().flatten().map(|g| g.state)
    }

    /// the frame condition: groups Active before are identical after, except `changed`
    fn frame(&self, before: &BTreeMap<Vec<u8>, Full>, allowed: Option<&GroupId>, what: &str) -> Result<(), Failure> {
        let after = fulls_of(&self.bob);
        for (gid, f) in before {
            let active = f.level.as_ref().map(|l| l.record.state == "active").unwrap_or(false);
            if !active {
                continue;
            }
            if allowed.map(|a| a.as_slice() == gid.as_slice()).unwrap_or(false) {
                continue;
            }
            match after.get(gid) {
                Some(a) if a == f => {}
                Some(a) => {
                    return Err(Failure::new(
                        "invitation-disturbed-an-active-group",
                        format!("{what}: group {} was Active and changed: {}", self.name_of(gid), crate::oracles::diff_full(f, a)),
                    ));
                }
                None => {
                    return Err(Failure::new(
                        "invitation-disturbed-an-active-group",
                        format!("{what}: group {} was Active and disappeared", self.name_of(gid)),
                    ));
                }
            }
        }
        // no group may become Active through anything but accept
        for (gid, a) in &after {
            let now_active = a.level.as_ref().map(|l| l.record.state == "active").unwrap_or(false);
            let was_active = before.get(gid).and_then(|f| f.level.as_ref()).map(|l| l.record.state == "active").unwrap_or(false);
            if now_active && !was_active && allowed.map(|x| x.as_slice() != gid.as_slice()).unwrap_or(true) {
                return Err(Failure::new(
                    "group-became-active-without-consent",
                    format!("{what}: group {} became Active", self.name_of(gid)),
                ));
            }
        }
        Ok(())
    }

    fn name_of(&self, gid: &[u8]) -> &'static str {
        if gid == self.g.as_slice() {
            "G"
        } else if gid == self.h.as_slice() {
            "H"
        } else {
            "other"
        }
    }

    fn step(&mut self, s: &WStep, mode: Mode, excused: &mut Vec<String>) -> Result<(), Failure> {
        match s {
            WStep::AliceInvites => {
                if self.alice_thinks_bob_member {
                    return Ok(());
                }
                let kp = key_package_event(&self.bob).map_err(|e| Failure::new("setup-failed", e))?;
                let g = self.g.clone();
                let r = on_mdk!(&self.alice.mdk, m => m.add_members(&g, &[kp]));
                let Ok(r) = r else { return Ok(()) };
                on_mdk!(&self.alice.mdk, m => m.merge_pending_commit(&g)).map_err(|e| Failure::new("setup-failed", e.to_string()))?;
                // Carol follows
                let _ = on_mdk!(&self.carol.mdk, m => m.process_message(&r.evolution_event));
                self.alice_thinks_bob_member = true;
                let lvl = on_mdk!(&self.alice.mdk, m => fp::group_level(m, &g)).ok().flatten().ok_or_else(|| Failure::new("setup-failed", "alice lost G"))?;
                let mut rumor = r.welcome_rumors.and_then(|v| v.into_iter().next()).ok_or_else(|| Failure::new("setup-failed", "no welcome rumor"))?;
                rumor.ensure_id();
                self.invs.push(Invitation {
                    rumor,
                    kind: InvKind::AliceValid { level_at_invite: Box::new(lvl) },
                    mls_gid: Some(g),
                    processed_ok: false,
                    returned: BTreeMap::new(),
                    answered: None,
                });
                let n = self.invs.len() - 1;
                self.note(format!("inv#{n}: Alice invites Bob into G"));
            }
            WStep::MalloryInvites { mls_id_of, nostr_id_of } => {
                let kp = key_package_event(&self.bob).map_err(|e| Failure::new("setup-failed", e))?;
                let fresh_id: Vec<u8> = {
                    let mut h = Sha256::new();
                    h.update(self.salt.as_bytes());
                    h.update((self.invs.len() as u64).to_be_bytes());
                    h.finalize()[..16].to_vec()
                };
                let mls_id = match mls_id_of {
                    Target::G => self.g.as_slice().to_vec(),
                    Target::H => self.h.as_slice().to_vec(),
                    Target::Fresh => fresh_id.clone(),
                };
                let nostr_of = |a: &Actor, gid: &GroupId| on_mdk!(&a.mdk, m => m.get_group(gid)).ok().flatten().map(|g| g.nostr_group_id);
                let nostr_id = match nostr_id_of {
                    Target::G => nostr_of(&self.alice, &self.g).unwrap_or([1; 32]),
                    Target::H => nostr_of(&self.dave, &self.h).unwrap_or([2; 32]),
                    Target::Fresh => {
                        let mut a = [0u8; 32];
                        a[..16].copy_from_slice(&fresh_id);
                        a
                    }
                };
                let rumor = match mallory_welcome(&self.mallory, &kp, &mls_id, nostr_id) {
                    Ok(r) => r,
                    Err(e) => {
                        self.note(format!("mallory could not build a welcome: {e}"));
                        return Ok(());
                    }
                };
                self.invs.push(Invitation {
                    rumor,
                    kind: InvKind::Mallory { mls_id_of: *mls_id_of, nostr_id_of: *nostr_id_of },
                    mls_gid: Some(GroupId::from_slice(&mls_id)),
                    processed_ok: false,
                    returned: BTreeMap::new(),
                    answered: None,
                });
                let n = self.invs.len() - 1;
                self.note(format!("inv#{n}: Mallory invites Bob (mls id of {mls_id_of:?}, nostr id of {nostr_id_of:?})"));
            }
            WStep::Malformed { inv, how } => {
                let Some(k) = crate::world::pick(*inv, self.invs.len()) else { return Ok(()) };
                if matches!(self.invs[k].kind, InvKind::Malformed { .. }) {
                    return Ok(());
                }
                let rumor = malform(&self.invs[k].rumor, *how);
                self.invs.push(Invitation {
                    rumor,
                    kind: InvKind::Malformed { of: k, how: *how % 8 },
                    mls_gid: None,
                    processed_ok: false,
                    returned: BTreeMap::new(),
                    answered: None,
                });
                let n = self.invs.len() - 1;
                self.note(format!("inv#{n}: malformed copy of inv#{k} (how {})", how % 8));
            }
            WStep::Process { inv, wrapper } => {
                let Some(k) = crate::world::pick(*inv, self.invs.len()) else { return Ok(()) };
                let variant = *wrapper % 3;
                let wid = wrapper_id(k, variant, &self.salt);
                let before = fulls_of(&self.bob);
                let groups_before = groups_of(&self.bob);
                let pending_before = pending_welcome_ids(&self.bob);
                let inv = self.invs[k].clone();
                let stored_before = on_mdk!(&self.bob.mdk, m => m.get_welcome(&inv.rumor.id.unwrap())).ok().flatten();
                let r = std::panic::catch_unwind(std::panic::AssertUnwindSafe(|| on_mdk!(&self.bob.mdk, m => m.process_welcome(&wid, &inv.rumor))));
                let r = match r {
                    Ok(r) => r,
                    Err(_) => return Err(Failure::new("panic", format!("process_welcome panicked on inv#{k}"))),
                };
                let what = format!("process_welcome(inv#{k} {}, wrapper variant {variant}) -> {}", kind_tag(&inv.kind), match &r { Ok(_) => "Ok".to_string(), Err(e) => format!("Err({e})") });
                self.note(what.clone());
                *self.counters.entry("process_welcome".into()).or_insert(0) += 1;
                let first_time_wrapper = !inv.returned.contains_key(&variant);
                let first_time_rumor = inv.returned.is_empty();
                match &r {
                    Err(_) => {
                        // a failed invitation has no effect whatsoever
                        let after = fulls_of(&self.bob);
                        if before != after || groups_before != groups_of(&self.bob) || pending_before != pending_welcome_ids(&self.bob) {
                            return Err(Failure::new("failed-invitation-had-an-effect", what));
                        }
                        self.classes.insert(format!("{}-refused", kind_tag(&inv.kind)));
                    }
                    Ok(w) => {
                        if matches!(inv.kind, InvKind::Malformed { .. }) {
                            self.classes.insert(format!("malformed-{}-accepted-by-parser", match inv.kind { InvKind::Malformed { how, .. } => how, _ => 0 }));
                        }
                        if !first_time_wrapper {
                            // same wrapper id: same welcome, nothing changes
                            self.classes.insert("same-wrapper-again".into());
                            let prev = &inv.returned[&variant];
                            let cur_stored = on_mdk!(&self.bob.mdk, m => m.get_welcome(&w.id)).ok().flatten();
                            if Some(w) != cur_stored.as_ref() || w.id != prev.id {
                                return Err(Failure::new("same-wrapper-returned-a-different-welcome", what));
                            }
                            if before != fulls_of(&self.bob) || groups_before != groups_of(&self.bob) || pending_before != pending_welcome_ids(&self.bob) {
                                return Err(Failure::new("reprocessing-the-same-wrapper-changed-state", what));
                            }
                        } else if !first_time_rumor {
                            // same rumor under a new wrapper id
                            self.classes.insert("same-rumor-new-wrapper".into());
                            let mut bad = None;
                            if let Some(sb) = &stored_before {
                                if w != sb {
                                    bad = Some(format!("returned welcome differs from the stored one (state {:?} -> {:?})", sb.state, w.state));
                                }
                                let now = on_mdk!(&self.bob.mdk, m => m.get_welcome(&w.id)).ok().flatten();
                                if now.as_ref() != Some(sb) {
                                    bad = Some(format!("stored welcome changed (state {:?} -> {:?})", sb.state, now.map(|n| n.state)));
                                }
                            }
                            if before != fulls_of(&self.bob) || groups_before != groups_of(&self.bob) {
                                bad = Some("groups changed".into());
                            }
                            if pending_before != pending_welcome_ids(&self.bob) {
                                bad = Some("pending welcomes changed".into());
                            }
                            if let Some(b) = bad {
                                return Err(Failure::new("same-invitation-under-new-wrapper-was-not-idempotent", format!("{what}: {b}")));
                            }
                        } else {
                            // first sight of this invitation
                            if w.state != WelcomeState::Pending {
                                return Err(Failure::new("fresh-invitation-not-pending", what));
                            }
                            let target = inv.mls_gid.clone();
                            // an Active group must not be touched, whoever invites
                            self.frame(&before, None, &what).map_err(|f| {
                                if let InvKind::Mallory { .. } = inv.kind {
                                    self.classes_note("hostile-welcome-for-held-group");
                                }
                                f
                            })?;
                            if let Some(t) = &target {
                                let was_active = before.get(t.as_slice()).and_then(|f| f.level.as_ref()).map(|l| l.record.state == "active").unwrap_or(false);
                                if was_active {
                                    self.classes.insert("invitation-for-a-group-held-active".into());
                                }
                            }
                            self.invs[k].processed_ok = true;
                        }
                        self.invs[k].returned.insert(variant, w.clone());
                    }
                }
                let _ = (mode, &excused);
            }
            WStep::Accept { inv } | WStep::Decline { inv } => {
                let accept = matches!(s, WStep::Accept { .. });
                let cands: Vec<usize> = (0..self.invs.len()).filter(|&i| self.invs[i].processed_ok).collect();
                let Some(c) = crate::world::pick(*inv, cands.len()) else { return Ok(()) };
                let k = cands[c];
                let inv = self.invs[k].clone();
                let Some(stored) = on_mdk!(&self.bob.mdk, m => m.get_welcome(&inv.rumor.id.unwrap())).ok().flatten() else { return Ok(()) };
                let before = fulls_of(&self.bob);
                let target = inv.mls_gid.clone().unwrap();
                let was_active = before.get(target.as_slice()).and_then(|f| f.level.as_ref()).map(|l| l.record.state == "active").unwrap_or(false);
                // known finding O29: accepting an invitation for a held group replaces that
                // group (StagedWelcome ... replace_old_group); excluded by construction
                if accept && was_active && mode == Mode::Normal {
                    *self.counters.entry("excluded:O29-accept-of-invitation-for-active-group".into()).or_insert(0) += 1;
                    return Ok(());
                }
                let r = if accept {
                    on_mdk!(&self.bob.mdk, m => m.accept_welcome(&stored))
                } else {
                    on_mdk!(&self.bob.mdk, m => m.decline_welcome(&stored))
                };
                let what = format!(
                    "{}(inv#{k} {}; Bob held that MLS group id as {:?}) -> {}",
                    if accept { "accept_welcome" } else { "decline_welcome" },
                    kind_tag(&inv.kind),
                    before.get(target.as_slice()).and_then(|f| f.level.as_ref()).map(|l| l.record.state.clone()),
                    match &r { Ok(_) => "Ok".to_string(), Err(e) => format!("Err({e})") }
                );
                self.note(what.clone());
                self.invs[k].answered = Some(accept);
                if was_active {
                    self.classes.insert(format!("{}-of-invitation-for-a-group-held-active", if accept { "accept" } else { "decline" }));
                    // whatever the answer, the Active group is not modified or disabled
                    self.frame(&before, None, &what)?;
                    return Ok(());
                }
                if accept && r.is_ok() {
                    self.frame(&before, Some(&target), &what)?;
                    let st = self.bob_state(&target);
                    if st != Some(GroupState::Active) {
                        return Err(Failure::new("accepted-invitation-not-active", format!("{what}: record state {st:?}")));
                    }
                    let rec = on_mdk!(&self.bob.mdk, m => m.get_group(&target)).ok().flatten().unwrap();
                    if rec.self_update_state != mdk_storage_traits::groups::types::SelfUpdateState::Required {
                        return Err(Failure::new("joiner-has-no-self-update-obligation", what));
                    }
                    let need = on_mdk!(&self.bob.mdk, m => m.groups_needing_self_update(0)).unwrap_or_default();
                    if !need.contains(&target) {
                        return Err(Failure::new("joiner-has-no-self-update-obligation", format!("{what}: not listed by groups_needing_self_update")));
                    }
                    if let InvKind::AliceValid { level_at_invite } = &inv.kind {
                        // only the latest invitation of Alice describes her current state
                        let latest = self.invs.iter().rposition(|i| matches!(i.kind, InvKind::AliceValid { .. })) == Some(k);
                        if latest {
                            let mine = on_mdk!(&self.bob.mdk, m => fp::group_level(m, &target)).ok().flatten();
                            if mine.as_ref() != Some(level_at_invite.as_ref()) {
                                return Err(Failure::new(
                                    "joiner-state-differs-from-inviters",
                                    format!("{what}: {}", mine.map(|m| crate::oracles::diff_levels(&m, level_at_invite)).unwrap_or("no group".into())),
                                ));
                            }
                            // ... and nothing of an earlier membership comes along
                            let f = on_mdk!(&self.bob.mdk, m => fp::full(m, &target));
                            if f.pending_proposal_count != 0 || !f.pending_removes.is_empty() || !f.pending_adds.is_empty() || f.pending_commit {
                                return Err(Failure::new(
                                    "joiner-state-differs-from-inviters",
                                    format!("{what}: the group just joined already holds {} pending proposal(s) (removals {:?}, additions {:?}), pending commit: {}", f.pending_proposal_count, f.pending_removes.iter().map(|p| crate::fingerprint::sh(p, 8)).collect::<Vec<_>>(), f.pending_adds.iter().map(|p| crate::fingerprint::sh(p, 8)).collect::<Vec<_>>(), f.pending_commit),
                                ));
                            }
                            self.classes.insert("accepted-valid-invitation".into());
                        }
                    }
                } else {
                    // declined or failed: nothing becomes active
                    self.frame(&before, None, &what)?;
                    if self.bob_state(&target) == Some(GroupState::Active) {
                        return Err(Failure::new("group-became-active-without-consent", what));
                    }
                }
            }
            WStep::AliceMessage | WStep::DaveMessage => {
                let (who, gid, name) = if matches!(s, WStep::AliceMessage) { (&self.alice, self.g.clone(), "G") } else { (&self.dave, self.h.clone(), "H") };
                self.msg_n += 1;
                let content = format!("peer-message-{}", self.msg_n);
                let rumor = EventBuilder::new(Kind::Custom(9), content.clone()).build(who.keys.public_key());
                let ev = on_mdk!(&who.mdk, m => m.create_message(&gid, rumor));
                let Ok(ev) = ev else { return Ok(()) };
                if name == "G" {
                    let _ = on_mdk!(&self.carol.mdk, m => m.process_message(&ev));
                }
                // is Bob an up-to-date active member of that group?
                let sender_lvl = on_mdk!(&who.mdk, m => fp::group_level(m, &gid)).ok().flatten();
                let bob_lvl = on_mdk!(&self.bob.mdk, m => fp::group_level(m, &gid)).ok().flatten();
                let should_get = match (&sender_lvl, &bob_lvl) {
                    (Some(a), Some(b)) => a.epoch == b.epoch && a.auth == b.auth && b.record.state == "active",
                    _ => false,
                };
                let r = on_mdk!(&self.bob.mdk, m => m.process_message(&ev));
                let stored = on_mdk!(&self.bob.mdk, m => m.get_messages(&gid, None)).unwrap_or_default().iter().any(|m| m.content == content);
                self.note(format!("{name} peer message -> Bob: {:?}, stored {stored}, expected {should_get}", r.as_ref().map(|_| "ok").map_err(|e| e.to_string())));
                if should_get {
                    *self.counters.entry("peer-messages-expected-at-bob".into()).or_insert(0) += 1;
                    if !stored {
                        return Err(Failure::new(
                            "active-group-no-longer-processes-peer-messages",
                            format!("Bob shares the {name} state with the sender and holds it Active, yet a fresh message was not stored ({:?})", r.map(|_| ()).map_err(|e| e.to_string())),
                        ));
                    }
                }
            }
            WStep::AliceRemovesBob => {
                if !self.alice_thinks_bob_member {
                    return Ok(());
                }
                let g = self.g.clone();
                let bpk = self.bob.keys.public_key();
                let r = on_mdk!(&self.alice.mdk, m => m.remove_members(&g, &[bpk]));
                let Ok(r) = r else { return Ok(()) };
                let _ = on_mdk!(&self.alice.mdk, m => m.merge_pending_commit(&g));
                let _ = on_mdk!(&self.carol.mdk, m => m.process_message(&r.evolution_event));
                let _ = on_mdk!(&self.bob.mdk, m => m.process_message(&r.evolution_event));
                self.alice_thinks_bob_member = false;
                self.note("Alice removes Bob from G".into());
            }
            WStep::CarolProposesLeaving => {
                let g = self.g.clone();
                let active = on_mdk!(&self.bob.mdk, m => m.get_group(&g)).ok().flatten().map(|r| r.state.as_str() == "active").unwrap_or(false);
                if !active || !self.alice_thinks_bob_member {
                    return Ok(());
                }
                let Ok(r) = on_mdk!(&self.carol.mdk, m => m.leave_group(&g)) else { return Ok(()) };
                let _ = on_mdk!(&self.carol.mdk, m => m.clear_pending_commit(&g));
                let out = on_mdk!(&self.bob.mdk, m => m.process_message(&r.evolution_event));
                if matches!(out, Ok(mdk_core::messages::MessageProcessingResult::PendingProposal { .. })) {
                    self.classes.insert("recipient-queued-a-proposal-before-being-removed-or-re-invited".into());
                }
                self.note("Carol asks to leave G; only Bob sees the request".into());
            }
            WStep::BobSelfUpdates => {
                let g = self.g.clone();
                let active = on_mdk!(&self.bob.mdk, m => m.get_group(&g)).ok().flatten().map(|r| r.state.as_str() == "active").unwrap_or(false);
                if !active || !self.alice_thinks_bob_member {
                    return Ok(());
                }
                // (a commit that carries queued proposals along - listed finding O9 - is by design
                // not counted as the plain key rotation the obligation asks for)
                let queued = on_mdk!(&self.bob.mdk, m => fp::full(m, &g)).pending_proposal_count;
                let Ok(r) = on_mdk!(&self.bob.mdk, m => m.self_update(&g)) else { return Ok(()) };
                if on_mdk!(&self.bob.mdk, m => m.merge_pending_commit(&g)).is_err() {
                    return Ok(());
                }
                let _ = on_mdk!(&self.alice.mdk, m => m.process_message(&r.evolution_event));
                let _ = on_mdk!(&self.carol.mdk, m => m.process_message(&r.evolution_event));
                let rec = on_mdk!(&self.bob.mdk, m => m.get_group(&g)).ok().flatten();
                if let Some(rec) = rec {
                    if queued == 0 && matches!(rec.self_update_state, mdk_storage_traits::groups::types::SelfUpdateState::Required) {
                        return Err(Failure::new("self-update-not-recorded", "Bob merged his self-update, the group still says a rotation is required".to_string()));
                    }
                }
                self.classes.insert("recipient-rotated-its-key-before-being-removed-or-re-invited".into());
                self.note("Bob self-updates in G".into());
            }
            WStep::BobRestart => {
                if self.bob_kind == BackendKind::Sql {
                    let keys = self.bob.keys.clone();
                    // drop first, then reopen
                    let placeholder = open_client_mdk(BackendKind::Mem, None, &Cfg::default(), std::sync::Arc::new(RollbackRecorder::default())).unwrap();
                    let before = fulls_of(&self.bob);
                    let pend = pending_welcome_ids(&self.bob);
                    self.bob.mdk = placeholder;
                    let mdk = open_client_mdk(BackendKind::Sql, self.bob_path.as_ref(), &Cfg::default(), std::sync::Arc::new(RollbackRecorder::default()))
                        .map_err(|e| Failure::new("reopen-failed", e))?;
                    self.bob = Actor { keys, mdk };
                    if before != fulls_of(&self.bob) || pend != pending_welcome_ids(&self.bob) {
                        return Err(Failure::new("restart-changed-invitation-state", "groups or pending welcomes differ after reopening".to_string()));
                    }
                    self.classes.insert("restart".into());
                }
            }
        }
        Ok(())
    }

    fn classes_note(&self, _c: &str) {}
}

fn kind_tag(k: &InvKind) -> String {
    match k {
        InvKind::AliceValid { .. } => "valid".into(),
        InvKind::Mallory { mls_id_of, nostr_id_of } => format!("mallory-mls-{mls_id_of:?}-nostr-{nostr_id_of:?}"),
        InvKind::Malformed { how, .. } => format!("malformed-{how}"),
    }
}

pub fn exec(case: &Case, mode: Mode) -> Result<CaseReport, Failure> {
    let mut run = Run::new(case).map_err(|e| Failure::new("setup-failed", e))?;
    let mut excused = vec![];
    for s in &case.steps {
        let r = run.step(s, mode, &mut excused).and_then(|_| routing_is_consistent(&run.bob, &format!("{s:?}")));
        if let Err(f) = r {
            let mut t = std::mem::take(&mut run.trace);
            t.push(format!("FAILED at {s:?}"));
            set_last_trace(t);
            return Err(f);
        }
    }
    let mut rep = CaseReport::default();
    rep.classes = run.classes.iter().cloned().collect();
    rep.counters = run.counters.clone();
    rep.excused = excused;
    rep.nontrivial = run.classes.iter().any(|c| {
        c == "same-rumor-new-wrapper" || c.contains("held-active") || c.starts_with("mallory-") || c == "invitation-for-a-group-held-active"
    });
    let _ = World::actors;
    Ok(rep)
}

/// Every group the recipient knows - pending ones included - is found under the Nostr group id
/// its own record carries (that lookup is how events and `accept_welcome` reach it), and under
/// no other group's id.
fn routing_is_consistent(bob: &Actor, after: &str) -> Result<(), Failure> {
    use mdk_storage_traits::groups::GroupStorage;
    use openmls_traits::OpenMlsProvider;
    on_mdk!(&bob.mdk, m => {
        let groups = m.get_groups().unwrap_or_default();
        for g in &groups {
            match m.provider.storage().find_group_by_nostr_group_id(&g.nostr_group_id) {
                Ok(Some(found)) if found.mls_group_id == g.mls_group_id => {}
                other => {
                    return Err(Failure::new(
                        "group-not-reachable-under-its-own-nostr-group-id",
                        format!(
                            "after {after}: the record of group {:?} ({}) carries Nostr group id {}, looking that id up finds {}",
                            g.name,
                            g.state.as_str(),
                            crate::fingerprint::sh(&hex::encode(g.nostr_group_id), 8),
                            match other { Ok(Some(f)) => format!("group {:?}", f.name), Ok(None) => "nothing".to_string(), Err(e) => format!("an error ({e})") }
                        ),
                    ));
                }
            }
        }
        Ok(())
    })
}

fn step_strategy() -> impl Strategy<Value = WStep> {
    let t = prop::sample::select(vec![Target::G, Target::H, Target::Fresh]);
    prop_oneof![
        4 => Just(WStep::AliceInvites),
        4 => (t.clone(), t).prop_map(|(mls_id_of, nostr_id_of)| WStep::MalloryInvites { mls_id_of, nostr_id_of }),
        3 => (any::<u16>(), 0u8..8).prop_map(|(inv, how)| WStep::Malformed { inv, how }),
        12 => (any::<u16>(), 0u8..3).prop_map(|(inv, wrapper)| WStep::Process { inv, wrapper }),
        5 => any::<u16>().prop_map(|inv| WStep::Accept { inv }),
        3 => any::<u16>().prop_map(|inv| WStep::Decline { inv }),
        4 => Just(WStep::AliceMessage),
        3 => Just(WStep::DaveMessage),
        2 => Just(WStep::AliceRemovesBob),
        1 => Just(WStep::BobRestart),
        2 => Just(WStep::BobSelfUpdates),
        2 => Just(WStep::CarolProposesLeaving),
    ]
}

pub fn main(args: &Args) -> i32 {
    let (cases, len) = match args.tier {
        Tier::Quick => (800, 6..30),
        Tier::Thorough => (16 * 5000, 6..50),
    };
    let spec = Spec {
        id: "C16",
        level: "exploration",
        rule: "histories over one recipient (memory or SQLite, optionally already a member of a second group H): valid invitations from the group's admin, invitations built by an outsider for a fresh MLS group id or for the id of a group the recipient holds (G or H) carrying a fresh Nostr group id or the one of G or H, malformed copies (8 ways), each processed under up to three wrapper ids, repeatedly, accepted / declined / left unanswered, interleaved with peer messages in G and H, the recipient's own key rotation, a peer's request to leave that only the recipient has queued, removal and re-invitation, restarts. Judged after every call: same wrapper => same welcome and nothing changes; same rumor under a new wrapper => stored welcome returned unchanged, nothing created; a failed / declined / unanswered invitation never yields an Active group; accept => inviter's post-commit state with no pending proposal or commit, Active, self-update Required and listed; every group Active before is identical after and still stores a fresh peer message. Non-trivial = an invitation for an MLS group id the recipient holds, a second wrapper id for the same rumor, or outsider-supplied group data; distinct = distinct histories".into(),
        assumptions: vec![
            "the NIP-59 gift-wrap layer is outside mdk: wrapper ids are harness-chosen, rumor ids are the NIP-01 hash".into(),
            "key packages are last-resort packages (as mdk creates them), so one package serves several invitations".into(),
        ],
        min_nontrivial: 20,
        max_shrink_iters: 600,
        exhaustive: false,
    };
    drive(
        args,
        spec,
        RunPlan { cases, workers: 16 },
        || (any::<bool>(), any::<bool>(), prop::collection::vec(step_strategy(), len.clone())).prop_map(|(bob_sql, bob_in_h, steps)| Case { bob_sql, bob_in_h, steps }),
        exec,
    )
}


// ---- used by C14: the same histories, returning the secrets involved and every error text
pub fn exec_for_logs(case: &Case) -> (crate::needles::Needles, Vec<String>) {
    let mut needles = crate::needles::Needles::default();
    let mut texts = vec![];
    let Ok(mut run) = Run::new(case) else { return (needles, texts) };
    let mut excused = vec![];
    for s in &case.steps {
        if let Err(f) = run.step(s, Mode::Normal, &mut excused) {
            texts.push(f.detail);
            break;
        }
    }
    for line in &run.trace {
        if line.contains("Err(") {
            texts.push(line.clone());
        }
    }
    for a in [&run.alice, &run.carol, &run.dave, &run.mallory, &run.bob] {
        for (gid, _) in groups_of(a) {
            needles.add_bytes_with_debug_list(gid.as_slice(), "MLS group id");
            if let Ok(Some(g)) = on_mdk!(&a.mdk, m => m.get_group(&gid)) {
                needles.add_bytes_with_debug_list(&g.nostr_group_id, "Nostr group id");
                for e in 0..=g.epoch {
                    use mdk_storage_traits::groups::GroupStorage;
                    use openmls_traits::OpenMlsProvider;
                    if let Ok(Some(s)) = on_mdk!(&a.mdk, m => m.provider.storage().get_group_exporter_secret(&gid, e)) {
                        needles.add_bytes_with_debug_list(s.secret.as_ref(), "exporter secret");
                    }
                }
            }
        }
    }
    (needles, texts)
}

pub fn strategy_for_logs() -> BoxedStrategy<Case> {
    (any::<bool>(), any::<bool>(), prop::collection::vec(step_strategy(), 6..25))
        .prop_map(|(bob_sql, bob_in_h, steps)| Case { bob_sql, bob_in_h, steps })
        .boxed()
}
