//! C05 — only admins change roster or group data; identities never change.

use crate::oracles::AuthzObserver;
use proptest::prelude::*;
use crate::plangen::{SetupOpts, Weights, plan_strategy_with};
use crate::props::common::{base_report, run_plan};
use crate::runner::{Args, CaseReport, Failure, Mode, RunPlan, Spec, Tier, drive};
use crate::world::{Plan, Regime};

pub fn exec(plan: &Plan, mode: Mode) -> Result<CaseReport, Failure> {
    let mut obs = AuthzObserver {
        strict: mode == Mode::Strict,
        ..Default::default()
    };
    let fin = run_plan(plan, mode, &mut obs)?;
    let mut rep = base_report(&fin);
    rep.nontrivial = obs.nontrivial > 0;
    rep.classes.extend(obs.classes.iter().cloned());
    rep.excused = obs.excused.clone();
    *rep.counters.entry("commit-and-proposal-deliveries-judged".into()).or_insert(0) += obs.judged;
    Ok(rep)
}

pub fn main(args: &Args) -> i32 {
    let (cases, len, sql) = match args.tier {
        Tier::Quick => (1000, 10..45, 10),
        Tier::Thorough => (16 * 1500, 10..70, 25),
    };
    let opts = SetupOpts {
        min_members: 3,
        sql_percent: sql,
        regimes: vec![Regime::Causal, Regime::Unrestricted],
        retention: 2..=5,
        ..SetupOpts::default()
    };
    let weights = Weights {
        msg: 2,
        rogue_commit: 10,
        rogue_proposal: 6,
        leave: 2,
        immediate: 0,
        reinvite: true,
        second_leaf: true,
        ..Weights::default()
    };
    let spec = Spec {
        id: "C05",
        level: "exploration",
        rule: "histories of honest operations mixed with commits and proposals built directly with OpenMLS by any client that holds group state (admin, non-admin, a member that has not yet seen its own removal): add, remove, group-context-extension rename / self-promotion, path update, path update with a foreign identity, remove+update, by-reference commit of the pending queue, empty commit; proposals: remove, add, extension, update. Every delivery of a commit or proposal is judged at the receiver by full before/after fingerprints against what the event names. An admin's remove call names one to three members (keys in plan-chosen order) and must change exactly those - nothing more and nothing less; members may hold a second leaf (a second key package of the same identity added later), and a removal by name must take all leaves of that identity. Non-trivial = an accepted commit whose author is not an admin in the receiver's epoch, a refused or queued rogue event, or an admin commit made while foreign proposals were pending; distinct = distinct plans".into(),
        assumptions: vec![
            "what an honest call names is known to the harness because it made the call; what a rogue event carries is known because the harness built it".into(),
            "an admin's commit may carry out a pending leave request of the leaver itself (the property's automatic case); anything else proposed by others may not ride along".into(),
            "PSK proposals are not generated (mdk registers no PSKs; OpenMLS refuses to build them without one)".into(),
        ],
        min_nontrivial: 20,
        max_shrink_iters: 400,
        exhaustive: false,
    };
    drive(
        args,
        spec,
        RunPlan { cases, workers: 16 },
        || {
            // one history in eight starts with a directed prelude: a member gets a second leaf,
            // then the admin removes that member by name
            (plan_strategy_with(&opts, &weights, len.clone()), 0u8..8, any::<bool>())
                .prop_map(|(mut p, roll, with_others)| {
                    if roll == 0 {
                        crate::plangen::second_leaf_then_remove_prelude(&mut p, with_others);
                    } else if roll == 1 {
                        // a member's request to leave reaches the admin while the admin holds an
                        // unmerged commit of its own
                        crate::plangen::leave_meets_pending_commit_prelude(&mut p, with_others);
                    }
                    p
                })
                .boxed()
        },
        exec,
    )
}
