//! C04 — stored messages are bound to their authenticated sender and to their own content.

use crate::oracles::AuthorBindingObserver;
use crate::plangen::{SetupOpts, Weights, plan_strategy_with};
use crate::props::common::{base_report, run_plan};
use crate::runner::{Args, CaseReport, Failure, Mode, RunPlan, Spec, Tier, drive, set_last_trace};
use crate::world::{Apply, Op, Plan, Regime};
use proptest::prelude::*;

pub fn exec(plan: &Plan, mode: Mode) -> Result<CaseReport, Failure> {
    let mut obs = AuthorBindingObserver {
        strict: mode == Mode::Strict,
        ..Default::default()
    };
    let mut fin = run_plan(plan, mode, &mut obs)?;
    for m in fin.world.actors() {
        if fin.world.clients[m].mdk.is_none() {
            continue;
        }
        let all = fin.world.full_all(m);
        if let Err(f) = obs.check_store(&fin.world, m, &all, "at the end of the history") {
            set_last_trace(std::mem::take(&mut fin.world.trace));
            return Err(f);
        }
    }
    let mut rep = base_report(&fin);
    rep.nontrivial = obs.nontrivial > 0;
    rep.classes.extend(obs.classes.iter().cloned());
    *rep.counters.entry("deliveries-judged".into()).or_insert(0) += obs.judged;
    Ok(rep)
}

pub fn main(args: &Args) -> i32 {
    let (cases, len, sql) = match args.tier {
        Tier::Quick => (1000, 10..45, 15),
        Tier::Thorough => (16 * 1500, 10..70, 30),
    };
    let opts = SetupOpts {
        sql_percent: sql,
        regimes: vec![Regime::Causal, Regime::Unrestricted],
        retention: 2..=5,
        side_percent: 30,
        ..SetupOpts::default()
    };
    let weights = Weights {
        msg: 8,
        rogue_msg: 10,
        replay: 6,
        redeliver: 4,
        self_update: 3,
        data: 2,
        immediate: 0,
        side: 4,
        reinvite: true,
        ..Weights::default()
    };
    let spec = Spec {
        id: "C04",
        level: "exploration",
        rule: "message-rich histories in which members also send rumors with a chosen pubkey (own / another member's / an outsider's) and a chosen pre-set id (none / random / the id of a stored message of another author / of an own earlier message), (or, from a stale client, the identity of whoever took over its leaf after it was removed - a quarter of the histories start with such a removal + addition), and re-wrap captured MLS ciphertexts in fresh wrappers; 30 % of the worlds carry a second live group on the same clients whose events (also re-tagged with this group's id) must never create or alter a message here; after every delivery at every receiver: each stored message is attributed to the identity of the client that really produced it (content canaries), its id is the NIP-01 hash of the stored fields, messages of other authors stored before are bit-for-bit unchanged, no canary is stored twice. Non-trivial = a forged rumor or a replayed ciphertext was delivered; distinct = distinct plans".into(),
        assumptions: vec![
            "message contents are unique canaries naming the producing client, so attribution is judged without trusting ids".into(),
        ],
        min_nontrivial: 20,
        max_shrink_iters: 400,
        exhaustive: false,
    };
    drive(
        args,
        spec,
        RunPlan { cases, workers: 16 },
        || {
            // a quarter of the histories start with "an admin removes a member and adds a newcomer,
            // applying both at once": the newcomer takes over the freed leaf while the removed
            // member (not yet told) can still encrypt for the epoch it is in
            (plan_strategy_with(&opts, &weights, len.clone()), 0u8..8, any::<u16>(), 0usize..6)
                .prop_map(|(mut p, roll, target, at)| {
                    if roll == 7 {
                        // "... or any other group": a message of the losing branch of a commit race
                        // is also posted into the second group, then the race is resolved
                        crate::plangen::crosspost_rollback_prelude(&mut p, target % 2 == 0);
                    } else if roll < 2 {
                        let at = at.min(p.ops.len());
                        p.ops.insert(at, Op::Add { m: 0, ts: 2, apply: Apply::Immediate, extra: 0 });
                        p.ops.insert(at, Op::Remove { m: 0, target, ts: 1, apply: Apply::Immediate, extra: 0 });
                    }
                    p
                })
                .boxed()
        },
        exec,
    )
}
