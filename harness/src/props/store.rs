//! C09, C10, C18(a): storage-contract differential (model / memory / SQLite).

use std::collections::BTreeMap;

use mdk_memory_storage::MdkMemoryStorage;
use mdk_sqlite_storage::MdkSqliteStorage;
use mdk_storage_traits::groups::{GroupStorage, MAX_MESSAGE_LIMIT, MessageSortOrder, Pagination};
use mdk_storage_traits::MdkStorageProvider;
use proptest::prelude::*;
use serde::{Deserialize, Serialize};

use crate::runner::{Args, CaseReport, Failure, Mode, RunPlan, Spec, Tier, drive};
use crate::storemodel::*;
use crate::world::scratch_dir;

#[derive(Clone, Debug, PartialEq, Eq, Hash, Serialize, Deserialize)]
pub struct StoreCase {
    pub ops: Vec<SOp>,
}

#[derive(Clone, Copy, PartialEq, Eq)]
pub enum Focus {
    Differential,
    Rollback,
    Ordering,
}

fn sop(focus: Focus) -> BoxedStrategy<SOp> {
    let g = 0u8..N_GROUPS;
    let b = any::<u8>();
    let (w_group, w_msg, w_proc, w_welcome, w_snap, w_mls, w_page, w_ident) = match focus {
        Focus::Differential => (6, 8, 6, 4, 6, 6, 4, 3),
        Focus::Rollback => (6, 4, 3, 2, 14, 10, 1, 4),
        Focus::Ordering => (3, 20, 1, 0, 1, 0, 12, 0),
    };
    let mut v: Vec<(u32, BoxedStrategy<SOp>)> = vec![
        (
            w_group,
            (0u8..3, 0u8..4, b, 0u8..4, 0u8..3, 0u8..8, b, b, b)
                .prop_map(|(g, n, name, epoch, state, admins, last, img, su)| SOp::SaveGroup {
                    g, n, name, epoch, state, admins, last, img, su,
                })
                .boxed(),
        ),
        (w_group, (g.clone(), 0u8..16).prop_map(|(g, mask)| SOp::ReplaceRelays { g, mask }).boxed()),
        (w_group, (g.clone(), 0u8..4, b).prop_map(|(g, epoch, val)| SOp::SaveSecret { g, epoch, val }).boxed()),
        (
            w_msg,
            (g.clone(), 0u8..N_MSG, 0u8..3, 0u8..3, 0u8..4, 0u8..4, 0u8..3, 0u8..4, 0u8..3)
                .prop_map(|(g, m, created, processed, epoch, state, content, tag, author)| SOp::SaveMessage {
                    g, m, created, processed, epoch, state, content, tag, author,
                })
                .boxed(),
        ),
        (
            w_proc,
            (0u8..N_WRAP, b, 0u8..5, 0u8..4, 0u8..6)
                .prop_map(|(w, m, g, epoch, state)| SOp::SaveProcessed { w, m, g, epoch, state })
                .boxed(),
        ),
        (w_proc, (g.clone(), 0u8..4).prop_map(|(g, epoch)| SOp::InvalidateMsgs { g, epoch }).boxed()),
        (w_proc, (g.clone(), 0u8..4).prop_map(|(g, epoch)| SOp::InvalidateProcessed { g, epoch }).boxed()),
        (w_proc, (0u8..N_WRAP).prop_map(|w| SOp::MarkRetryable { w }).boxed()),
        (w_welcome, (0u8..N_WRAP, g.clone(), 0u8..4).prop_map(|(w, g, state)| SOp::SaveWelcome { w, g, state }).boxed()),
        (
            w_welcome,
            (0u8..N_WRAP, b, 0u8..2).prop_map(|(w, welcome, state)| SOp::SaveProcessedWelcome { w, welcome, state }).boxed(),
        ),
        (w_snap, (g.clone(), 0u8..4).prop_map(|(g, name)| SOp::Snapshot { g, name }).boxed()),
        (w_snap, (g.clone(), 0u8..4).prop_map(|(g, name)| SOp::Rollback { g, name }).boxed()),
        (w_snap / 3 + 1, (g.clone(), 0u8..4).prop_map(|(g, name)| SOp::Release { g, name }).boxed()),
        (w_snap / 4 + 1, prop::bool::weighted(0.3).prop_map(|all| SOp::Prune { all }).boxed()),
        (w_mls, (g.clone(), 0u8..N_KINDS, b).prop_map(|(g, kind, val)| SOp::WriteGroupData { g, kind, val }).boxed()),
        (w_mls / 3, (g.clone(), 0u8..N_KINDS).prop_map(|(g, kind)| SOp::DeleteGroupData { g, kind }).boxed()),
        (w_mls, (g.clone(), 0u8..4, b).prop_map(|(g, r, val)| SOp::QueueProposal { g, r, val }).boxed()),
        (w_mls / 3, (g.clone(), 0u8..4).prop_map(|(g, r)| SOp::RemoveProposal { g, r }).boxed()),
        (w_mls / 4, g.clone().prop_map(|g| SOp::ClearProposals { g }).boxed()),
        (w_mls / 2, (g.clone(), b).prop_map(|(g, val)| SOp::AppendOwnLeaf { g, val }).boxed()),
        (w_mls / 4, g.clone().prop_map(|g| SOp::DeleteOwnLeaves { g }).boxed()),
        (w_mls, (g.clone(), 0u8..3, 0u8..3, b).prop_map(|(g, epoch, leaf, val)| SOp::WriteEpochKeys { g, epoch, leaf, val }).boxed()),
        (w_mls / 3, (g.clone(), 0u8..3, 0u8..3).prop_map(|(g, epoch, leaf)| SOp::DeleteEpochKeys { g, epoch, leaf }).boxed()),
        (w_ident, (0u8..3, b).prop_map(|(r, val)| SOp::WriteKeyPackage { r, val }).boxed()),
        (w_ident / 2, (0u8..3).prop_map(|r| SOp::DeleteKeyPackage { r }).boxed()),
        (w_ident, (0u8..3, b).prop_map(|(r, val)| SOp::WritePsk { r, val }).boxed()),
        (w_ident, (0u8..3, b).prop_map(|(r, val)| SOp::WriteSigKey { r, val }).boxed()),
        (w_ident / 2, (0u8..3).prop_map(|r| SOp::DeleteSigKey { r }).boxed()),
        (w_ident, (0u8..3, b).prop_map(|(r, val)| SOp::WriteEncKey { r, val }).boxed()),
        (
            w_page,
            (g.clone(), 0u8..8, 0u8..8, any::<bool>())
                .prop_map(|(g, limit, offset, processed_first)| SOp::Page { g, limit, offset, processed_first })
                .boxed(),
        ),
        (w_page / 2, (g.clone(), 0u8..6).prop_map(|(g, needle)| SOp::TagSearch { g, needle }).boxed()),
        (2, Just(SOp::Reopen).boxed()),
    ];
    v.retain(|(w, _)| *w > 0);
    proptest::strategy::Union::new_weighted(v).boxed()
}

pub fn case_strategy(focus: Focus, len: std::ops::Range<usize>) -> BoxedStrategy<StoreCase> {
    if focus == Focus::Rollback {
        // a populated store first, then the random part with few snapshot names so that
        // rollbacks usually hit a snapshot that exists
        let narrow = |op: SOp| match op {
            SOp::Snapshot { g, name } => SOp::Snapshot { g: g % 3, name: name % 2 },
            SOp::Rollback { g, name } => SOp::Rollback { g: g % 3, name: name % 2 },
            SOp::Release { g, name } => SOp::Release { g: g % 3, name: name % 2 },
            o => o,
        };
        return (any::<[u8; 12]>(), prop::collection::vec(sop(focus).prop_map(narrow), len))
            .prop_map(|(b, ops)| {
                let mut pre = vec![];
                for g in 0..(1 + b[0] % 3) {
                    pre.push(SOp::SaveGroup { g, n: g, name: b[1], epoch: b[2] % 4, state: 0, admins: b[3] % 8, last: b[4], img: b[5], su: b[6] });
                    pre.push(SOp::ReplaceRelays { g, mask: b[7] % 16 });
                    pre.push(SOp::SaveSecret { g, epoch: b[8] % 4, val: b[9] });
                    pre.push(SOp::SaveMessage { g, m: b[10] % N_MSG, created: 0, processed: 1, epoch: 1, state: 1, content: 1, tag: 1, author: 0 });
                    pre.push(SOp::WriteGroupData { g, kind: b[11] % N_KINDS, val: b[0] });
                }
                let mut ops = ops;
                if b[11] % 5 == 0 {
                    // a rollback that has to be refused: after the snapshot the group moves to
                    // another Nostr group id and a second group takes the old one
                    let at = (b[10] as usize) % (ops.len() + 1);
                    let macro_ops = vec![
                        SOp::Snapshot { g: 0, name: 0 },
                        SOp::SaveGroup { g: 0, n: 3, name: b[1], epoch: b[2] % 4, state: 0, admins: b[3] % 8, last: b[4], img: b[5], su: b[6] },
                        SOp::SaveGroup { g: 1, n: 0, name: b[1], epoch: b[2] % 4, state: 0, admins: b[3] % 8, last: b[4], img: b[5], su: b[6] },
                        SOp::Rollback { g: 0, name: 0 },
                        SOp::SaveGroup { g: 1, n: 1, name: b[1], epoch: b[2] % 4, state: 0, admins: b[3] % 8, last: b[4], img: b[5], su: b[6] },
                        SOp::Rollback { g: 0, name: 0 },
                    ];
                    for (i, o) in macro_ops.into_iter().enumerate() {
                        ops.insert(at + i, o);
                    }
                }
                pre.extend(ops);
                StoreCase { ops: pre }
            })
            .boxed();
    }
    if focus == Focus::Differential {
        // two snapshot names only, so that a rollback usually finds the snapshot it names
        let narrow = |op: SOp| match op {
            SOp::Snapshot { g, name } => SOp::Snapshot { g, name: name % 2 },
            SOp::Rollback { g, name } => SOp::Rollback { g, name: name % 2 },
            SOp::Release { g, name } => SOp::Release { g, name: name % 2 },
            o => o,
        };
        return prop::collection::vec(sop(focus).prop_map(narrow), len).prop_map(|ops| StoreCase { ops }).boxed();
    }
    prop::collection::vec(sop(focus), len).prop_map(|ops| StoreCase { ops }).boxed()
}

/// known findings of the storage layer, by signature
fn known_store_finding(op: &SOp, which: &str, key: &str) -> Option<&'static str> {
    let _ = (which, key);
    match op {
        _ => None,
    }
}

fn check_pages<S: MdkStorageProvider>(s: &S, name: &str, g: u8) -> Result<u64, Failure> {
    // pages of size 1, 2, 3 partition the full listing; repeated calls agree; last_message is the head
    let id = gid(g);
    let mut n = 0;
    for order in [MessageSortOrder::CreatedAtFirst, MessageSortOrder::ProcessedAtFirst] {
        let full = match s.messages(&id, Some(Pagination::with_sort_order(Some(MAX_MESSAGE_LIMIT), Some(0), order))) {
            Ok(f) => f,
            Err(_) => return Ok(0),
        };
        let again = s
            .messages(&id, Some(Pagination::with_sort_order(Some(MAX_MESSAGE_LIMIT), Some(0), order)))
            .map_err(|e| Failure::new("listing-not-repeatable", format!("{name}: second call failed: {e}")))?;
        if full != again {
            return Err(Failure::new("listing-not-repeatable", format!("{name}: two identical calls returned different listings for group {g}")));
        }
        // total order by the documented key
        for w in full.windows(2) {
            let (a, b) = (&w[0], &w[1]);
            let ka = match order {
                MessageSortOrder::CreatedAtFirst => (a.created_at, a.processed_at, a.id),
                MessageSortOrder::ProcessedAtFirst => (a.processed_at, a.created_at, a.id),
            };
            let kb = match order {
                MessageSortOrder::CreatedAtFirst => (b.created_at, b.processed_at, b.id),
                MessageSortOrder::ProcessedAtFirst => (b.processed_at, b.created_at, b.id),
            };
            if ka <= kb {
                return Err(Failure::new(
                    "listing-not-in-documented-order",
                    format!("{name}: group {g} {order:?}: {} listed before {}", a.id.to_hex(), b.id.to_hex()),
                ));
            }
        }
        let head = s.last_message(&id, order).map_err(|e| Failure::new("last-message-failed", format!("{name}: {e}")))?;
        if head.as_ref() != full.first() {
            return Err(Failure::new(
                "last-message-is-not-the-head",
                format!("{name}: group {g} {order:?}: last_message {:?} vs head {:?}", head.map(|m| m.id.to_hex()), full.first().map(|m| m.id.to_hex())),
            ));
        }
        for limit in [1usize, 2, 3] {
            let mut cat = vec![];
            let mut off = 0;
            loop {
                let page = s
                    .messages(&id, Some(Pagination::with_sort_order(Some(limit), Some(off), order)))
                    .map_err(|e| Failure::new("page-failed", format!("{name}: {e}")))?;
                if page.is_empty() {
                    break;
                }
                if page.len() > limit {
                    return Err(Failure::new("page-larger-than-limit", format!("{name}: group {g} limit {limit} returned {}", page.len())));
                }
                off += page.len();
                cat.extend(page);
                n += 1;
                if off > 100 {
                    break;
                }
            }
            if cat != full {
                return Err(Failure::new(
                    "pages-do-not-partition-the-listing",
                    format!(
                        "{name}: group {g} {order:?} limit {limit}: concatenated pages {:?} vs listing {:?}",
                        cat.iter().map(|m| m.id.to_hex()[..4].to_string()).collect::<Vec<_>>(),
                        full.iter().map(|m| m.id.to_hex()[..4].to_string()).collect::<Vec<_>>()
                    ),
                ));
            }
        }
    }
    Ok(n)
}

pub fn exec(case: &StoreCase, mode: Mode, focus: Focus) -> Result<CaseReport, Failure> {
    let dir = scratch_dir("s");
    let mem = MdkMemoryStorage::default();
    let mut sql = MdkSqliteStorage::new_unencrypted(dir.0.join("store.db"))
        .map_err(|e| Failure::new("setup-failed", format!("open sqlite: {e}")))?;
    let mut model = Model::default();
    let now_far = nostr::Timestamp::now().as_secs() + 100_000;
    let mut rep = CaseReport::default();
    let mut counters: BTreeMap<String, u64> = BTreeMap::new();
    let mut classes = std::collections::BTreeSet::new();
    let mut steps_since_snapshot: BTreeMap<(u8, String), u32> = BTreeMap::new();

    for (i, op) in case.ops.iter().enumerate() {
        // preconditions every real caller respects
        if let SOp::Snapshot { g, .. } = op {
            if model.slices.get(&(*g % N_GROUPS)).map(|s| s.group.is_none()).unwrap_or(true) {
                *counters.entry("skipped:snapshot-of-missing-group".into()).or_insert(0) += 1;
                continue;
            }
        }
        // classification (before applying)
        match op {
            SOp::SaveMessage { g, m, .. } => {
                if model.messages.contains_key(&(*g % N_GROUPS, *m % N_MSG)) {
                    classes.insert("message-overwrite");
                }
                if model.messages.keys().any(|(gg, mm)| *mm == *m % N_MSG && *gg != *g % N_GROUPS) {
                    classes.insert("message-id-reused-across-groups");
                }
            }
            SOp::SaveGroup { g, .. } => {
                if model.slices.get(&(*g % 3)).map(|s| s.group.is_some()).unwrap_or(false) {
                    classes.insert("group-overwrite");
                }
            }
            SOp::Rollback { g, name } => {
                let key = (*g % N_GROUPS, format!("snap-{}", name % 4));
                if model.snapshots.contains_key(&key) {
                    let changed = steps_since_snapshot.get(&key).copied().unwrap_or(0) > 0;
                    let others = model.slices.iter().any(|(og, s)| *og != key.0 && s.group.is_some());
                    let msgs = model.messages.keys().any(|(gg, _)| *gg == key.0);
                    if changed && (others || msgs) {
                        classes.insert("rollback-after-change-with-bystanders");
                        rep.nontrivial = rep.nontrivial || focus == Focus::Rollback;
                    }
                    if model.snapshots.keys().filter(|(gg, _)| *gg == key.0).count() > 1 {
                        classes.insert("rollback-with-sibling-snapshots");
                    }
                } else {
                    classes.insert("rollback-to-unknown-snapshot");
                }
            }
            SOp::Snapshot { g, name } => {
                let key = (*g % N_GROUPS, format!("snap-{}", name % 4));
                if model.snapshots.contains_key(&key) {
                    classes.insert("snapshot-name-retaken");
                }
                steps_since_snapshot.insert(key, 0);
            }
            SOp::Page { limit, offset, .. } => {
                if matches!(limit % 8, 0 | 5 | 6 | 7) || matches!(offset % 8, 6 | 7) {
                    classes.insert("boundary-pagination");
                }
            }
            SOp::Prune { all: true } => {
                classes.insert("prune-all");
            }
            _ => {}
        }
        if !matches!(op, SOp::Snapshot { .. } | SOp::Page { .. } | SOp::TagSearch { .. }) {
            for v in steps_since_snapshot.values_mut() {
                *v += 1;
            }
        }

        if matches!(op, SOp::Reopen) {
            // close the connection (the handle is replaced by one on another file and dropped),
            // then open the real file again
            let placeholder = MdkSqliteStorage::new_unencrypted(dir.0.join("placeholder.db"))
                .map_err(|e| Failure::new("setup-failed", format!("open placeholder: {e}")))?;
            drop(std::mem::replace(&mut sql, placeholder));
            sql = MdkSqliteStorage::new_unencrypted(dir.0.join("store.db"))
                .map_err(|e| Failure::new("database-does-not-reopen", format!("step {i}: {e}")))?;
            *counters.entry("sqlite-reopened".into()).or_insert(0) += 1;
            classes.insert("sqlite-reopened-mid-sequence");
        }
        let rm = model.apply(op);
        let ra = std::panic::catch_unwind(std::panic::AssertUnwindSafe(|| apply_real(&mem, op, now_far)));
        let rb = std::panic::catch_unwind(std::panic::AssertUnwindSafe(|| apply_real(&sql, op, now_far)));
        for (name, r) in [("memory", &ra), ("sqlite", &rb)] {
            match r {
                Err(p) => {
                    let t = p.downcast_ref::<String>().cloned().or_else(|| p.downcast_ref::<&str>().map(|s| s.to_string())).unwrap_or_default();
                    if mode == Mode::Normal {
                        if let Some(k) = known_store_finding(op, name, "panic") {
                            rep.excused.push(k.to_string());
                            continue;
                        }
                    }
                    return Err(Failure::new("storage-call-panicked", format!("step {i} {op:?}: {name} backend panicked: {t}")));
                }
                Ok(v) => {
                    if *v != rm {
                        if mode == Mode::Normal {
                            if let Some(k) = known_store_finding(op, name, "result") {
                                rep.excused.push(k.to_string());
                                continue;
                            }
                        }
                        return Err(Failure::new(
                            &format!("{name}-result-differs-from-contract"),
                            format!("step {i} {op:?}: {name} returned {} but the contract model says {}", brief(v), brief(&rm)),
                        ));
                    }
                }
            }
        }
        if let SOp::TagSearch { g, needle } = op {
            let want = model.tag_matches(*g % N_GROUPS, *needle);
            for (name, got) in [("memory", tag_search_value(&mem, *g, *needle)), ("sqlite", tag_search_value(&sql, *g, *needle))] {
                if let Ok(Some(e)) = got {
                    if !want.contains(&e) {
                        return Err(Failure::new(
                            &format!("{name}-tag-search-wrong-epoch"),
                            format!("step {i} {op:?}: {name} returned epoch {e}, matching messages have epochs {want:?}"),
                        ));
                    }
                }
            }
        }
        // full dumps: after every mutating step
        if !matches!(op, SOp::Page { .. } | SOp::TagSearch { .. }) {
            let dm = model.dump();
            let da = dump_real(&mem);
            let db = dump_real(&sql);
            *counters.entry("full-dump-comparisons".into()).or_insert(0) += 2;
            for (name, d) in [("memory", &da), ("sqlite", &db)] {
                if let Some((k, real, want)) = first_difference(d, &dm) {
                    return Err(Failure::new(
                        &format!("{name}-state-differs-from-contract"),
                        format!("after step {i} {op:?}: {name} read `{k}` = {real}, the contract model says {want}"),
                    ));
                }
            }
        }
        if focus == Focus::Ordering || matches!(op, SOp::SaveMessage { .. }) {
            for g in 0..3u8 {
                let a = check_pages(&mem, "memory", g)?;
                let b = check_pages(&sql, "sqlite", g)?;
                *counters.entry("pages-fetched".into()).or_insert(0) += a + b;
            }
        }
    }
    // ties
    for g in 0..3u8 {
        let ms: Vec<_> = model.messages.iter().filter(|((gg, _), _)| *gg == g).map(|(_, m)| m).collect();
        for a in 0..ms.len() {
            for b in (a + 1)..ms.len() {
                if ms[a].created_at == ms[b].created_at {
                    classes.insert("tie-on-created-at");
                    if ms[a].processed_at == ms[b].processed_at {
                        classes.insert("tie-on-both-timestamps");
                    }
                }
            }
        }
    }
    rep.classes = classes.iter().map(|s| s.to_string()).collect();
    rep.counters = counters;
    rep.nontrivial = match focus {
        Focus::Differential => ["message-overwrite", "tie-on-both-timestamps", "message-id-reused-across-groups", "boundary-pagination", "group-overwrite"]
            .iter()
            .any(|c| classes.contains(c)),
        Focus::Rollback => classes.contains("rollback-after-change-with-bystanders"),
        Focus::Ordering => classes.contains("tie-on-created-at"),
    };
    Ok(rep)
}

pub fn main(args: &Args, focus: Focus) -> i32 {
    let (id, cases, len, rule, assumptions): (&'static str, usize, std::ops::Range<usize>, &str, Vec<String>) = match (focus, args.tier) {
        (Focus::Differential, Tier::Quick) => ("C10", 600, 10..60, "", vec![]),
        (Focus::Differential, Tier::Thorough) => ("C10", 16 * 800, 10..120, "", vec![]),
        (Focus::Rollback, Tier::Quick) => ("C09", 600, 10..60, "", vec![]),
        (Focus::Rollback, Tier::Thorough) => ("C09", 16 * 800, 10..120, "", vec![]),
        (Focus::Ordering, Tier::Quick) => ("C18", 500, 8..40, "", vec![]),
        (Focus::Ordering, Tier::Thorough) => ("C18", 16 * 600, 8..80, "", vec![]),
    };
    let _ = (rule, assumptions);
    let rule = match focus {
        Focus::Differential => "sequences of storage-trait calls over small key pools (3 groups + 1 never-created, 6 message ids reused across groups, 5 wrapper ids, timestamps {t,t,t+1}), every result and a full dump of every read compared three-way (contract model / memory / SQLite) after every step; a quarter of the sequences are snapshot-heavy (create / rollback / release / prune on a populated store); non-trivial = an overwrite, a tie on both timestamps, an id reused across groups or a boundary pagination value; distinct = distinct sequences",
        Focus::Rollback => "storage-call sequences dominated by snapshot create / rollback / release / prune on 1..3 groups, nested and out of order, with re-taken and unknown names; after every step the full dump of both backends must equal the model's (slice restored, snapshot consumed, everything else untouched); non-trivial = a rollback to an existing snapshot after the group changed, with another group or messages of this group present; distinct = distinct sequences",
        Focus::Ordering => "message sets with colliding created_at / processed_at and listings with every (limit, offset, sort) incl. 0, MAX, MAX+1, usize::MAX on both backends: documented order, repeatability, page partitioning for limits 1..3, last_message = head; non-trivial = a tie on created_at; distinct = distinct sequences",
    };
    let spec = Spec {
        id,
        level: "exploration",
        rule: rule.into(),
        assumptions: vec![
            "values stay inside both backends' documented limits (name <= 255 B, small relay/admin sets, LRU size not reached)".into(),
            "snapshots are only taken of existing groups (as mdk-core does)".into(),
            "unordered results (id lists, all_groups, snapshot names, proposal refs) are compared as sets".into(),
        ],
        min_nontrivial: 20,
        max_shrink_iters: 2000,
        exhaustive: false,
    };
    drive(
        args,
        spec,
        RunPlan { cases, workers: 16 },
        || {
            if focus == Focus::Differential {
                // the same-store claim covers the snapshot API as well: a quarter of the sequences
                // come from the snapshot-heavy generator (populated store, few names)
                prop_oneof![3 => case_strategy(Focus::Differential, len.clone()), 1 => case_strategy(Focus::Rollback, len.clone())].boxed()
            } else {
                case_strategy(focus, len.clone())
            }
        },
        move |c: &StoreCase, m| exec(c, m, focus),
    )
}
