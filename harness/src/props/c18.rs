//! C18 — one total order, exact pages, consistent last-message pointer.
//! Part (a) is the storage-level differential (props::store, Focus::Ordering), part (b) runs
//! message-rich world plans with the pointer invariant checked after every call.

use proptest::prelude::*;
use serde::{Deserialize, Serialize};

use crate::oracles::PointerObserver;
use crate::plangen::{SetupOpts, Weights, plan_strategy};
use crate::props::common::{base_report, run_plan};
use crate::props::store::{self, Focus, StoreCase};
use crate::runner::{Args, CaseReport, Failure, Mode, RunPlan, Spec, Tier, drive, set_last_trace};
use crate::world::{Plan, Regime};

#[derive(Clone, Debug, PartialEq, Eq, Hash, Serialize, Deserialize)]
pub enum Case {
    Store(StoreCase),
    World(Plan),
}

pub fn exec(case: &Case, mode: Mode) -> Result<CaseReport, Failure> {
    match case {
        Case::Store(c) => {
            let mut r = store::exec(c, mode, Focus::Ordering)?;
            r.classes.push("part-a-storage-listing".into());
            Ok(r)
        }
        Case::World(plan) => {
            let mut obs = PointerObserver::default();
            let mut fin = run_plan(plan, mode, &mut obs)?;
            for m in fin.world.actors() {
                if let Err(f) = obs.check_client(&fin.world, m, "end-of-history") {
                    set_last_trace(std::mem::take(&mut fin.world.trace));
                    return Err(f);
                }
            }
            let mut rep = base_report(&fin);
            rep.nontrivial = obs.nontrivial > 0;
            rep.classes.extend(obs.classes.iter().cloned());
            rep.classes.push("part-b-last-message-pointer".into());
            *rep.counters.entry("pointer-checks".into()).or_insert(0) += obs.checks;
            Ok(rep)
        }
    }
}

pub fn main(args: &Args) -> i32 {
    let (cases, slen, wlen, sql) = match args.tier {
        Tier::Quick => (900, 8..40, 10..45, 20),
        Tier::Thorough => (16 * 900, 8..80, 10..70, 30),
    };
    let opts = SetupOpts {
        sql_percent: sql,
        regimes: vec![Regime::Causal, Regime::Unrestricted],
        retention: 2..=6,
        ..SetupOpts::default()
    };
    let weights = Weights {
        msg: 14,
        deliver: 16,
        redeliver: 3,
        immediate: 0,
        reinvite: true,
        ..Weights::default()
    };
    let spec = Spec {
        id: "C18",
        level: "exploration",
        rule: "(a) storage level: message sets with colliding created_at / processed_at on both backends, every (limit, offset, sort) incl. 0, MAX, MAX+1, usize::MAX — documented order, repeatability, pages of size 1..3 partition the listing, last_message = head, three-way equality with the contract model; (b) MDK level: message-rich histories (rumor created_at from a 3-value pool, late, re-delivered, invalidated by rollback) with the cached last-message pointer compared to the head of the default order among non-invalidated messages after every API call; non-trivial = a tie on created_at (a) / a pointer check with invalidated messages or ties present (b); distinct = distinct cases".into(),
        assumptions: vec![
            "processed_at has whole-second granularity and is wall-clock: within one fast run most processed_at values coincide, which makes ties the common case rather than the rare one".into(),
        ],
        min_nontrivial: 20,
        max_shrink_iters: 600,
        exhaustive: false,
    };
    drive(
        args,
        spec,
        RunPlan { cases, workers: 16 },
        || {
            prop_oneof![
                1 => store::case_strategy(Focus::Ordering, slen.clone()).prop_map(Case::Store),
                1 => plan_strategy(&opts, &weights, wlen.clone()).prop_map(Case::World),
            ]
        },
        exec,
    )
}
