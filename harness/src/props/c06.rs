//! C06 — hostile or malformed input never panics and a refused event has no effect.

use std::collections::BTreeMap;

use mdk_core::groups::NostrGroupConfigData;
use nostr::{Event, EventBuilder, Keys, Kind, Tag, TagKind};
use proptest::prelude::*;
use serde::{Deserialize, Serialize};

use crate::fingerprint as fp;
use crate::on_mdk;
use crate::oracles::RefusalObserver;
use crate::plangen::{SetupOpts, Weights, plan_strategy};
use crate::props::common::{base_report, run_plan};
use crate::runner::{Args, CaseReport, Failure, Mode, RunPlan, Spec, Tier, drive, set_last_trace};
use crate::world::{BackendKind, Cfg, Plan, Regime, RollbackRecorder, open_client_mdk, relay_url, scratch_dir};

#[derive(Clone, Debug, PartialEq, Eq, Hash, Serialize, Deserialize)]
pub enum Case {
    /// a world history with structure-aware mutations of its own events
    World(Plan),
    /// one-field mutations of a valid key-package event
    KeyPackage { muts: Vec<(u8, u8)> },
    /// junk strings / byte vectors through every exported method of the bindings
    Bindings { calls: Vec<(u8, Vec<JunkArg>)> },
}

#[derive(Clone, Debug, PartialEq, Eq, Hash, Serialize, Deserialize)]
pub enum JunkArg {
    Empty,
    OddHex,
    ShortHex,
    LongHex,
    NotHex,
    ValidGroupIdHex,
    ValidPubkeyHex,
    ValidEventIdHex,
    BrokenJson,
    WrongShapeJson,
    EventJsonWrongKind,
    DeepJson,
    Unicode,
    Huge,
    ValidRelay,
    BadRelay,
    /// a valid group id / pubkey / event id in hex with one multi-byte character inside, same
    /// byte length as the valid value (u8 picks which value, width and offset)
    SameLengthNonAscii(u8),
}

fn world_case(plan: &Plan, mode: Mode) -> Result<CaseReport, Failure> {
    let mut obs = RefusalObserver {
        strict: mode == Mode::Strict,
        ..Default::default()
    };
    let fin = run_plan(plan, mode, &mut obs)?;
    let mut rep = base_report(&fin);
    rep.nontrivial = obs.nontrivial > 0;
    rep.classes.extend(obs.classes.iter().cloned());
    rep.excused = obs.excused.clone();
    rep.classes.push("family:world-mutations".into());
    *rep.counters.entry("refused-deliveries-judged".into()).or_insert(0) += obs.judged;
    Ok(rep)
}

fn mutate_key_package(ev: &Event, keys: &Keys, other: &Keys, what: u8, how: u8) -> (Event, String) {
    let tags: Vec<Tag> = ev.tags.iter().cloned().collect();
    let mut content = ev.content.clone();
    let mut kind = ev.kind;
    let mut signer = keys.clone();
    let mut new_tags = tags.clone();
    let desc;
    match what % 12 {
        0 => {
            // drop the n-th tag
            let i = how as usize % tags.len();
            desc = format!("drop tag {:?}", tags[i].kind());
            new_tags.remove(i);
        }
        1 => {
            // corrupt the value of the n-th tag
            let i = how as usize % tags.len();
            let k = tags[i].kind();
            desc = format!("corrupt tag {k:?}");
            new_tags[i] = Tag::custom(k, ["zz-not-a-valid-value".to_string()]);
        }
        2 => {
            // duplicate a tag with another value
            let i = how as usize % tags.len();
            desc = format!("duplicate tag {:?}", tags[i].kind());
            new_tags.push(Tag::custom(tags[i].kind(), ["0xffff".to_string()]));
        }
        3 => {
            desc = "content truncated".into();
            let n = content.len() / 2;
            content.truncate(n - n % 4);
        }
        4 => {
            desc = "content is hex instead of base64".into();
            use base64::Engine;
            if let Ok(raw) = base64::engine::general_purpose::STANDARD.decode(&content) {
                content = hex::encode(raw);
            }
        }
        5 => {
            desc = "content not base64".into();
            content = "!!! definitely not base64 !!!".into();
        }
        6 => {
            desc = "signed by someone else (author differs from the credential identity)".into();
            signer = other.clone();
        }
        7 => {
            desc = "wrong kind".into();
            kind = Kind::TextNote;
        }
        8 => {
            desc = "i tag of another package".into();
            new_tags = tags
                .iter()
                .map(|t| if t.kind() == TagKind::i() { Tag::custom(TagKind::i(), ["ab".repeat(32)]) } else { t.clone() })
                .collect();
        }
        10 => {
            // same byte length, but a multi-byte character somewhere inside the value (code that
            // checks `len()` and then slices by byte offsets must refuse this, not panic)
            let i = how as usize % tags.len();
            let k = tags[i].kind();
            let vals: Vec<String> = tags[i].as_slice().iter().skip(1).cloned().collect();
            let v = vals.first().cloned().unwrap_or_default();
            let w = 2 + (how as usize / tags.len().max(1)) % 3;
            if v.is_ascii() && v.len() >= w {
                let o = (how as usize / 3) % (v.len() - w + 1);
                let ch = ["\u{e9}", "\u{20ac}", "\u{1F600}"][w - 2];
                let nv = format!("{}{}{}", &v[..o], ch, &v[o + w..]);
                desc = format!("reshape tag {k:?}: {w}-byte character at byte offset {o} of a {}-byte value", v.len());
                let mut all = vec![nv];
                all.extend(vals.into_iter().skip(1));
                new_tags[i] = Tag::custom(k, all);
            } else {
                desc = format!("reshape tag {k:?}: value replaced by non-ASCII text");
                new_tags[i] = Tag::custom(k, ["\u{e9}\u{20ac}\u{1F600}".to_string()]);
            }
        }
        11 => {
            let i = how as usize % tags.len();
            let k = tags[i].kind();
            let vals: Vec<String> = tags[i].as_slice().iter().skip(1).cloned().collect();
            let v = vals.first().cloned().unwrap_or_default();
            let (nv, d): (Vec<String>, &str) = match (how as usize / tags.len().max(1)) % 7 {
                0 => (vec![String::new()], "empty value"),
                1 => (vec![], "no value at all"),
                2 => (vec![v.to_uppercase()], "upper-cased value"),
                3 => (vec![format!(" {v} ")], "value padded with spaces"),
                4 => (vec![format!("{v}\u{0}")], "value with a trailing NUL"),
                5 => (vec![v.repeat(2000)], "value repeated 2000 times"),
                _ => (vec![v.clone(), v.clone(), "extra".into()], "additional values"),
            };
            desc = format!("reshape tag {k:?}: {d}");
            new_tags[i] = Tag::custom(k, nv);
        }
        _ => {
            desc = "content bit flipped".into();
            use base64::Engine;
            if let Ok(mut raw) = base64::engine::general_purpose::STANDARD.decode(&content) {
                let i = (how as usize * raw.len()) / 256;
                raw[i] ^= 0x40;
                content = base64::engine::general_purpose::STANDARD.encode(raw);
            }
        }
    }
    let ev2 = EventBuilder::new(kind, content).tags(new_tags).sign_with_keys(&signer).expect("sign");
    (ev2, desc)
}

fn key_package_case(muts: &[(u8, u8)], rep: &mut CaseReport) -> Result<(), Failure> {
    let rec = || std::sync::Arc::new(RollbackRecorder::default());
    let admin = open_client_mdk(BackendKind::Mem, None, &Cfg::default(), rec()).map_err(|e| Failure::new("setup-failed", e))?;
    let joiner = open_client_mdk(BackendKind::Mem, None, &Cfg::default(), rec()).map_err(|e| Failure::new("setup-failed", e))?;
    let (ak, jk, ok) = (Keys::generate(), Keys::generate(), Keys::generate());
    let apk = ak.public_key();
    let res = on_mdk!(&admin, m => m.create_group(&apk, vec![], NostrGroupConfigData::new("kp".into(), "d".into(), None, None, None, vec![relay_url(0)], vec![apk])))
        .map_err(|e| Failure::new("setup-failed", e.to_string()))?;
    let gid = res.group.mls_group_id.clone();
    let jpk = jk.public_key();
    let (content, tags, _) = on_mdk!(&joiner, m => m.create_key_package_for_event(&jpk, vec![relay_url(0)])).map_err(|e| Failure::new("setup-failed", e.to_string()))?;
    let valid = EventBuilder::new(Kind::MlsKeyPackage, content).tags(tags).sign_with_keys(&jk).map_err(|e| Failure::new("setup-failed", e.to_string()))?;
    for (what, how) in muts {
        let (ev, desc) = mutate_key_package(&valid, &jk, &ok, *what, *how);
        let before = on_mdk!(&admin, m => fp::full(m, &gid));
        let r = std::panic::catch_unwind(std::panic::AssertUnwindSafe(|| on_mdk!(&admin, m => m.parse_key_package(&ev)).map(|_| ())));
        let parsed = match r {
            Ok(p) => p,
            Err(_) => return Err(Failure::new("panic", format!("parse_key_package panicked on a key package with: {desc}"))),
        };
        let r2 = std::panic::catch_unwind(std::panic::AssertUnwindSafe(|| on_mdk!(&admin, m => m.add_members(&gid, std::slice::from_ref(&ev))).map(|_| ())));
        let added = match r2 {
            Ok(p) => p,
            Err(_) => return Err(Failure::new("panic", format!("add_members panicked on a key package with: {desc}"))),
        };
        *rep.counters.entry("key-package-mutants".into()).or_insert(0) += 1;
        rep.classes.push(format!("key-package:{}->{}", desc.split(' ').take(2).collect::<Vec<_>>().join("-"), if parsed.is_ok() { "parsed" } else { "refused" }));
        if added.is_err() {
            let after = on_mdk!(&admin, m => fp::full(m, &gid));
            if before != after {
                return Err(Failure::new(
                    "refused-event-had-an-effect",
                    format!("add_members refused a key package ({desc}) yet the group changed: {}", crate::oracles::diff_full(&before, &after)),
                ));
            }
        } else {
            // accepted (e.g. an unknown extra tag): undo for the next mutant
            let _ = on_mdk!(&admin, m => m.clear_pending_commit(&gid));
        }
    }
    rep.nontrivial = true;
    rep.classes.push("family:key-package".into());
    Ok(())
}

fn junk(a: &JunkArg, ctx: &BTreeMap<&'static str, String>) -> String {
    match a {
        JunkArg::Empty => String::new(),
        JunkArg::OddHex => "abc".into(),
        JunkArg::ShortHex => "abcd".into(),
        JunkArg::LongHex => "ab".repeat(200),
        JunkArg::NotHex => "zz-not-hex-\u{1F600}".into(),
        JunkArg::ValidGroupIdHex => ctx.get("gid").cloned().unwrap_or_default(),
        JunkArg::ValidPubkeyHex => ctx.get("pk").cloned().unwrap_or_default(),
        JunkArg::ValidEventIdHex => "11".repeat(32),
        JunkArg::BrokenJson => "{\"id\": \"".into(),
        JunkArg::WrongShapeJson => "[1, 2, {\"a\": null}]".into(),
        JunkArg::EventJsonWrongKind => ctx.get("event").cloned().unwrap_or_default(),
        JunkArg::DeepJson => format!("{}1{}", "[".repeat(300), "]".repeat(300)),
        JunkArg::Unicode => "\u{0}\u{FFFF}\u{202E}abc\\u0000".into(),
        JunkArg::Huge => "A".repeat(200_000),
        JunkArg::ValidRelay => "wss://relay.example.com".into(),
        JunkArg::BadRelay => "http//not a url".into(),
        JunkArg::SameLengthNonAscii(n) => {
            let v = match n % 3 {
                0 => ctx.get("gid").cloned().unwrap_or_default(),
                1 => ctx.get("pk").cloned().unwrap_or_default(),
                _ => "11".repeat(32),
            };
            let w = 2 + (*n as usize / 3) % 3;
            if v.is_ascii() && v.len() >= w {
                let o = (*n as usize / 9) % (v.len() - w + 1);
                let ch = ["\u{e9}", "\u{20ac}", "\u{1F600}"][w - 2];
                format!("{}{}{}", &v[..o], ch, &v[o + w..])
            } else {
                v
            }
        }
    }
}

fn bindings_case(calls: &[(u8, Vec<JunkArg>)], rep: &mut CaseReport) -> Result<(), Failure> {
    use mdk_uniffi as u;
    let dir = scratch_dir("c06u");
    let mdk = u::new_mdk_unencrypted(dir.0.join("u.db").to_string_lossy().to_string(), None).map_err(|e| Failure::new("setup-failed", e.to_string()))?;
    let keys = Keys::generate();
    let pk = keys.public_key().to_hex();
    // a real group so that valid ids reach deeper code
    let g = mdk
        .create_group(pk.clone(), vec![], "bindings".into(), "d".into(), vec!["wss://relay.example.com".into()], vec![pk.clone()])
        .map_err(|e| Failure::new("setup-failed", e.to_string()))?;
    let mut ctx: BTreeMap<&'static str, String> = BTreeMap::new();
    ctx.insert("gid", g.group.mls_group_id.clone());
    ctx.insert("pk", pk.clone());
    let note = EventBuilder::new(Kind::TextNote, "hello").sign_with_keys(&keys).unwrap();
    ctx.insert("event", serde_json::to_string(&note).unwrap());
    for (which, args) in calls {
        let a = |i: usize| junk(args.get(i).unwrap_or(&JunkArg::Empty), &ctx);
        let name: &str;
        let r = std::panic::catch_unwind(std::panic::AssertUnwindSafe(|| -> bool {
            match which % 24 {
                0 => mdk.create_key_package_for_event(a(0), vec![a(1)]).is_ok(),
                1 => mdk.parse_key_package(a(0)).is_ok(),
                2 => mdk.get_group(a(0)).is_ok(),
                3 => mdk.get_members(a(0)).is_ok(),
                4 => mdk.get_messages(a(0), Some(u32::MAX), Some(u32::MAX), Some(a(1))).is_ok(),
                5 => mdk.get_message(a(0), a(1)).is_ok(),
                6 => mdk.get_last_message(a(0), a(1)).is_ok(),
                7 => mdk.get_welcome(a(0)).is_ok(),
                8 => mdk.process_welcome(a(0), a(1)).is_ok(),
                9 => mdk.accept_welcome_json(a(0)).is_ok(),
                10 => mdk.decline_welcome_json(a(0)).is_ok(),
                11 => mdk.get_relays(a(0)).is_ok(),
                12 => mdk.create_group(a(0), vec![a(1)], a(2), a(3), vec![a(4)], vec![a(5)]).is_ok(),
                13 => mdk.add_members(a(0), vec![a(1)]).is_ok(),
                14 => mdk.remove_members(a(0), vec![a(1)]).is_ok(),
                15 => mdk.merge_pending_commit(a(0)).is_ok(),
                16 => mdk.clear_pending_commit(a(0)).is_ok(),
                17 => mdk.sync_group_metadata_from_mls(a(0)).is_ok(),
                18 => mdk.create_message(a(0), a(1), a(2), 9, Some(vec![vec![a(3)], vec![], vec![a(4), a(5)]])).is_ok(),
                19 => mdk.self_update(a(0)).is_ok() | mdk.leave_group(a(0)).is_ok(),
                20 => mdk.process_message(a(0)).is_ok(),
                21 => u::decrypt_group_image(a(0).into_bytes(), Some(a(1).into_bytes()), a(2).into_bytes(), a(3).into_bytes()).is_ok(),
                22 => u::derive_upload_keypair(a(0).into_bytes(), 2).is_ok() | u::prepare_group_image_for_upload(a(1).into_bytes(), a(2)).is_ok(),
                _ => mdk.get_pending_welcomes(Some(0), Some(u32::MAX)).is_ok() | mdk.groups_needing_self_update(u64::MAX).is_ok(),
            }
        }));
        name = [
            "create_key_package_for_event", "parse_key_package", "get_group", "get_members", "get_messages", "get_message", "get_last_message", "get_welcome",
            "process_welcome", "accept_welcome_json", "decline_welcome_json", "get_relays", "create_group", "add_members", "remove_members", "merge_pending_commit",
            "clear_pending_commit", "sync_group_metadata_from_mls", "create_message", "self_update/leave_group", "process_message", "decrypt_group_image",
            "derive_upload_keypair/prepare_group_image_for_upload", "get_pending_welcomes/groups_needing_self_update",
        ][*which as usize % 24];
        *rep.counters.entry("binding-calls".into()).or_insert(0) += 1;
        match r {
            Ok(ok) => rep.classes.push(format!("binding:{name}->{}", if ok { "ok" } else { "err" })),
            Err(_) => {
                return Err(Failure::new(
                    "panic",
                    format!("binding {name} panicked on arguments {:?}", args),
                ));
            }
        }
    }
    rep.nontrivial = !calls.is_empty();
    rep.classes.push("family:bindings".into());
    Ok(())
}

pub fn exec(case: &Case, mode: Mode) -> Result<CaseReport, Failure> {
    match case {
        Case::World(plan) => world_case(plan, mode),
        Case::KeyPackage { muts } => {
            let mut rep = CaseReport::default();
            key_package_case(muts, &mut rep)?;
            Ok(rep)
        }
        Case::Bindings { calls } => {
            let mut rep = CaseReport::default();
            let r = bindings_case(calls, &mut rep);
            if r.is_err() {
                set_last_trace(vec![format!("{calls:?}")]);
            }
            r?;
            Ok(rep)
        }
    }
}

pub fn main(args: &Args) -> i32 {
    let (cases, len, sql) = match args.tier {
        Tier::Quick => (900, 10..45, 12),
        Tier::Thorough => (16 * 1500, 10..70, 25),
    };
    let opts = SetupOpts {
        sql_percent: sql,
        regimes: vec![Regime::Causal, Regime::Unrestricted],
        retention: 2..=5,
        side_percent: 35,
        ..SetupOpts::default()
    };
    let weights = Weights {
        hostile: 14,
        msg: 5,
        rogue_commit: 2,
        rogue_proposal: 2,
        rogue_msg: 2,
        replay: 2,
        leave: 2,
        side: 5,
        reinvite: true,
        // stored snapshots pruned behind a client's back: a later commit race then runs into a
        // rollback that fails, and the refused commit must still leave everything as it was
        vanish: 2,
        ..Weights::default()
    };
    let spec = Spec {
        id: "C06",
        level: "exploration",
        rule: "three generated families. (1) world histories in which members mutate events they can open - outer event: kind, created_at (0 / far future / too old), h tag (missing, doubled, not hex, upper case, short, unknown group), content (not base64, truncated, empty); inner MLS bytes re-encrypted under the right exporter secret: empty, random, bit flips, truncation, extension, the clear framing header's epoch / content type / group id, back-dated genuine copies - and hand them to members in every state (idle, pending commit, pending proposals, inactive); stored rollback snapshots are now and then pruned behind a client's back, so that a late better commit is refused because its rollback fails; every refused hand-over (error, unprocessable, previously failed, ignored proposal) must leave the fingerprints of all groups of that client identical; any panic is a violation. (2) one-field mutations of a valid key-package event through parse_key_package and add_members (refusal leaves the group unchanged). (3) sequences of calls to every exported method of mdk-uniffi with junk strings / byte vectors (odd, short, long, non-hex, broken / wrong-shape / deep JSON, NUL and bidi characters, 200 KB, valid ids of the wrong kind): no panic. 35 % of the worlds carry a second live group on the same clients: a refused event must leave that group untouched as well, and events of one group re-tagged for the other must be refused. Non-trivial = a mutant that passed the outer layers it was built to pass, any key-package or binding case; distinct = distinct cases".into(),
        assumptions: vec![
            "OpenMLS's internal ratchet bookkeeping is not observable through the API and not compared".into(),
            "welcome mutations are C16's subject (same oracle there)".into(),
        ],
        min_nontrivial: 20,
        max_shrink_iters: 400,
        exhaustive: false,
    };
    let junk = prop::sample::select(vec![
        JunkArg::Empty, JunkArg::OddHex, JunkArg::ShortHex, JunkArg::LongHex, JunkArg::NotHex, JunkArg::ValidGroupIdHex, JunkArg::ValidPubkeyHex,
        JunkArg::ValidEventIdHex, JunkArg::BrokenJson, JunkArg::WrongShapeJson, JunkArg::EventJsonWrongKind, JunkArg::DeepJson, JunkArg::Unicode,
        JunkArg::Huge, JunkArg::ValidRelay, JunkArg::BadRelay, JunkArg::SameLengthNonAscii(1), JunkArg::SameLengthNonAscii(30), JunkArg::SameLengthNonAscii(77),
        JunkArg::SameLengthNonAscii(140), JunkArg::SameLengthNonAscii(200), JunkArg::SameLengthNonAscii(251),
    ]);
    drive(
        args,
        spec,
        RunPlan { cases, workers: 16 },
        || {
            prop_oneof![
                6 => plan_strategy(&opts, &weights, len.clone()).prop_map(Case::World),
                1 => prop::collection::vec((0u8..12, any::<u8>()), 1..12).prop_map(|muts| Case::KeyPackage { muts }),
                2 => prop::collection::vec((0u8..24, prop::collection::vec(junk.clone(), 6)), 1..30).prop_map(|calls| Case::Bindings { calls }),
            ]
        },
        exec,
    )
}
