//! C13 — encrypted databases leak nothing at rest and only open with their key.

use std::cell::RefCell;
use std::os::unix::fs::PermissionsExt;
use std::path::{Path, PathBuf};
use std::rc::Rc;

use mdk_sqlite_storage::{EncryptionConfig, MdkSqliteStorage};
use mdk_storage_traits::groups::GroupStorage;
use nostr::{EventBuilder, Kind};
use openmls_traits::OpenMlsProvider;
use proptest::prelude::*;
use serde::{Deserialize, Serialize};

use crate::needles::Needles;
use crate::on_mdk;
use crate::plangen::{SetupOpts, Weights, plan_strategy};
use crate::runner::{Args, CaseReport, Failure, Mode, RunPlan, Spec, Tier, drive, set_last_trace};
use crate::storemodel as sm;
use crate::world::{BackendKind, KEYRING_SERVICE, NoObserver, Plan, Regime, World, ensure_mock_keyring, key_for_path, scratch_dir};

#[derive(Clone, Copy, Debug, PartialEq, Eq, Hash, Serialize, Deserialize)]
pub enum Ctor {
    KeyringA,
    KeyringB,
    Key1,
    Key2,
    Unencrypted,
    /// the keyring constructor (entry A) while the keyring refuses to *store* a fresh key
    KeyringAWriteFails,
}

#[derive(Clone, Copy, Debug, PartialEq, Eq, Hash, Serialize, Deserialize)]
pub enum FileState {
    Missing,
    Empty,
    Plain,
    EncryptedKey1,
    EncryptedKeyringA,
    /// what an interrupted first open with the keyring constructor leaves behind: the
    /// pre-created, still empty file and the key already stored in the keyring
    EmptyWithKeyringEntryA,
}

#[derive(Clone, Debug, PartialEq, Eq, Hash, Serialize, Deserialize)]
pub enum Case {
    /// a history on encrypted storage with canaries searched in every file
    History { plan: Plan, keyring: bool, big: u8 },
    /// constructor x file-state matrix, in a generated order on one path
    Matrix {
        start: FileState,
        attempts: Vec<Ctor>,
        nested_dirs: u8,
        /// spelling of the directory / file names (0 plain, 1 with colons, 2 with spaces, 3 non-ASCII, 4 dot-names and a timestamp)
        #[serde(default)]
        name_shape: u8,
    },
    /// concurrent first opens of one path through the keyring
    ConcurrentOpen {
        threads: u8,
        /// false: keyring constructor; true: caller-supplied key
        #[serde(default)]
        with_key: bool,
    },
}

thread_local! {
    static SCAN: RefCell<Option<(PathBuf, Needles, Option<String>, u64)>> = const { RefCell::new(None) };
}

fn scan_dir(dir: &Path, needles: &mut Needles, only_sidecars: bool) -> Result<u64, String> {
    let mut n = 0;
    let Ok(rd) = std::fs::read_dir(dir) else { return Ok(0) };
    for e in rd.flatten() {
        let p = e.path();
        if !p.is_file() {
            continue;
        }
        let name = p.file_name().unwrap().to_string_lossy().to_string();
        let sidecar = name.ends_with("-journal") || name.ends_with("-wal") || name.ends_with("-shm") || name.contains(".tmp") || name.starts_with("etilqs");
        if only_sidecars && !sidecar {
            continue;
        }
        let Ok(bytes) = std::fs::read(&p) else { continue };
        n += 1;
        if let Some((label, off)) = needles.find(&bytes) {
            return Err(format!("file {name} ({} bytes) contains {label} at offset {off}", bytes.len()));
        }
    }
    Ok(n)
}

fn collect_needles(w: &World, needles: &mut Needles) {
    let gid = w.gid.clone();
    needles.add_bytes(gid.as_slice(), "MLS group id");
    for e in &w.relay {
        if let Some(r) = &e.rumor {
            needles.add_text(&r.content[..r.content.len().min(64)], "message text");
        }
    }
    needles.add_text("initial description", "group description");
    needles.add_text("group zero", "group name");
    needles.add_text("relay0.example.com", "relay url");
    for m in w.actors() {
        let cl = &w.clients[m];
        let Some(mdk) = cl.mdk.as_ref() else { continue };
        needles.add_text(&cl.pk_hex(), "member public key");
        if let Some(p) = &cl.db_path {
            if cl.kind == BackendKind::SqlKey {
                needles.add_bytes(&key_for_path(p), "database key");
            } else if cl.kind == BackendKind::SqlKeyring {
                if let Ok(Some(k)) = mdk_sqlite_storage::keyring::get_db_key(KEYRING_SERVICE, &p.to_string_lossy()) {
                    needles.add_bytes(k.key(), "database key");
                }
            }
        }
        if let Ok(Some(g)) = on_mdk!(mdk, mm => mm.get_group(&gid)) {
            needles.add_bytes(&g.nostr_group_id, "Nostr group id");
            needles.add_text(&g.name, "group name");
            needles.add_text(&g.description, "group description");
            if let Some(k) = &g.image_key {
                needles.add_bytes(k.as_ref(), "image key");
            }
            for e in 0..=g.epoch {
                if let Ok(Some(s)) = on_mdk!(mdk, mm => mm.provider.storage().get_group_exporter_secret(&gid, e)) {
                    needles.add_bytes(s.secret.as_ref(), "exporter secret");
                }
            }
        }
    }
}

fn history(plan: &Plan, keyring: bool, big: u8, rep: &mut CaseReport) -> Result<(), Failure> {
    let m = set_umask(big.wrapping_add(plan.ops.len() as u8));
    rep.classes.push(format!("umask-{m:03o}"));
    let r = history_inner(plan, keyring, big, rep);
    unsafe { libc::umask(0o022) };
    r
}

fn history_inner(plan: &Plan, keyring: bool, big: u8, rep: &mut CaseReport) -> Result<(), Failure> {
    let mut setup = plan.setup.clone();
    let kind = if keyring { BackendKind::SqlKeyring } else { BackendKind::SqlKey };
    for b in setup.backends.iter_mut() {
        *b = kind;
    }
    setup.with_reference = false;
    let mut w = World::new(&setup).map_err(|e| Failure::new("setup-failed", e))?;
    let dir = w.dir.0.clone();
    let mut obs = NoObserver;
    // sidecar files are scanned at every storage tick with what is known so far
    SCAN.with(|s| *s.borrow_mut() = Some((dir.clone(), Needles::default(), None, 0)));
    mdk_sqlite_storage::verif::set_tick_handler(Some(Rc::new(|_l: &'static str| {
        SCAN.with(|s| {
            let Ok(mut guard) = s.try_borrow_mut() else { return };
            if let Some((dir, needles, found, n)) = guard.as_mut() {
                if found.is_none() && needles.len() > 0 {
                    match scan_dir(dir, needles, true) {
                        Ok(k) => *n += k,
                        Err(e) => *found = Some(e),
                    }
                }
            }
        });
    })));
    let result = (|| -> Result<(), Failure> {
        // reading the canaries goes through the storage (ticks!): take the scan state out meanwhile
        let refresh = |w: &World| {
            let taken = SCAN.with(|s| s.borrow_mut().take());
            if let Some((d, mut needles, f, n)) = taken {
                collect_needles(w, &mut needles);
                SCAN.with(|s| *s.borrow_mut() = Some((d, needles, f, n)));
            }
        };
        refresh(&w);
        for (i, op) in plan.ops.iter().enumerate() {
            w.apply_op(op, &mut obs)?;
            if i % 4 == 0 {
                refresh(&w);
            }
        }
        // a value large enough to spill to overflow pages
        if big > 0 {
            let gid = w.gid.clone();
            let size = 20_000 + (big as usize % 4) * 10_000;
            let text = format!("BIG-CANARY-{}", "spill-".repeat(size / 6));
            let pk = w.clients[0].keys.public_key();
            let rumor = EventBuilder::new(Kind::Custom(9), text).build(pk);
            if let Ok(ev) = on_mdk!(w.clients[0].mdk(), m => m.create_message(&gid, rumor)) {
                for m in w.actors() {
                    if w.clients[m].mdk.is_some() {
                        let _ = on_mdk!(w.clients[m].mdk(), mm => mm.process_message(&ev));
                    }
                }
                rep.classes.push("overflow-page-sized-message".into());
                SCAN.with(|s| {
                    if let Some((_, needles, _, _)) = s.borrow_mut().as_mut() {
                        needles.add_text("BIG-CANARY-spill-spill-spill-", "large message text");
                        needles.add_text("spill-spill-spill-spill-spill-", "large message text");
                    }
                });
            }
        }
        w.quiesce(&mut obs, 8)?;
        refresh(&w);
        Ok(())
    })();
    mdk_sqlite_storage::verif::set_tick_handler(None);
    let (mut needles, found, sidecar_scans) = SCAN.with(|s| s.borrow_mut().take()).map(|(_, n, f, c)| (n, f, c)).unwrap();
    if let Err(f) = result {
        set_last_trace(std::mem::take(&mut w.trace));
        return Err(f);
    }
    if let Some(f) = found {
        set_last_trace(std::mem::take(&mut w.trace));
        return Err(Failure::new("plaintext-in-a-sidecar-file", f));
    }
    // pragmas of the live connections
    for m in w.actors() {
        if let Some(crate::world::AnyMdk::Sql(mdk)) = w.clients[m].mdk.as_ref() {
            let (cipher, temp_store, fk) = mdk.provider.storage().verif_pragmas().map_err(|e| Failure::new("pragma-read-failed", e.to_string()))?;
            if cipher.is_none() || temp_store != 2 || fk != 1 {
                return Err(Failure::new(
                    "encrypted-connection-misconfigured",
                    format!("c{m}: cipher_version {cipher:?}, temp_store {temp_store} (2 = MEMORY), foreign_keys {fk}"),
                ));
            }
        }
    }
    // the tail of the history, chosen by `big`: calls that the storage refuses (a rollback to a
    // snapshot that does not exist, relays for a group that does not exist) followed by an
    // ordinary write - everything a call reported as done must be there after the reopen
    if big % 2 == 1 {
        use mdk_storage_traits::MdkStorageProvider;
        use mdk_storage_traits::groups::GroupStorage;
        let gid = w.gid.clone();
        for m in w.actors() {
            if !w.is_active(m) {
                continue;
            }
            let Some(crate::world::AnyMdk::Sql(mdk)) = w.clients[m].mdk.as_ref() else { continue };
            let st = mdk.provider.storage();
            let refused = [
                st.rollback_group_to_snapshot(&gid, "no-such-snapshot").is_err(),
                st.replace_group_relays(&mdk_storage_traits::GroupId::from_slice(&[0xEE, 1, 2, 3]), Default::default()).is_err(),
            ];
            *rep.counters.entry("refused-storage-calls-before-the-last-write".into()).or_insert(0) += refused.iter().filter(|r| **r).count() as u64;
            let rumor = EventBuilder::new(Kind::Custom(9), format!("after-refused-calls-{m}")).build(w.clients[m].keys.public_key());
            let _ = mdk.create_message(&gid, rumor);
        }
        rep.classes.push("history-ending-with-refused-storage-calls".into());
    }
    // close everything, then scan every file at rest
    let rollbacks: usize = w.actors().iter().map(|&m| w.clients[m].rollbacks.len()).sum();
    let paths: Vec<(usize, PathBuf, BackendKind)> = w.actors().iter().filter_map(|&m| w.clients[m].db_path.clone().map(|p| (m, p, w.clients[m].kind))).collect();
    let fulls: Vec<(usize, crate::fingerprint::Full)> = paths.iter().filter(|(m, _, _)| w.clients[*m].mdk.is_some()).map(|(m, _, _)| (*m, w.full(*m).without_clock())).collect();
    for c in w.clients.iter_mut() {
        c.mdk = None;
    }
    match scan_dir(&dir, &mut needles, false) {
        Ok(n) => *rep.counters.entry("files-scanned-at-rest".into()).or_insert(0) += n,
        Err(e) => {
            set_last_trace(std::mem::take(&mut w.trace));
            return Err(Failure::new("plaintext-in-a-database-file", e));
        }
    }
    // permissions, whatever the umask
    for (m, p, _) in &paths {
        let mode = std::fs::metadata(p).map(|md| md.permissions().mode() & 0o777).unwrap_or(0);
        if mode != 0o600 {
            return Err(Failure::new("database-file-not-owner-only", format!("c{m}: {} has mode {:o}", p.display(), mode)));
        }
    }
    // only the key opens it; the right key yields the same data
    for (m, p, kind) in &paths {
        let right = if *kind == BackendKind::SqlKey {
            EncryptionConfig::new(key_for_path(p))
        } else {
            match mdk_sqlite_storage::keyring::get_db_key(KEYRING_SERVICE, &p.to_string_lossy()) {
                Ok(Some(k)) => k,
                _ => return Err(Failure::new("keyring-entry-missing-after-use", format!("c{m}"))),
            }
        };
        let mut wrong = *right.key();
        wrong[0] ^= 1;
        let before = std::fs::read(p).unwrap_or_default();
        if MdkSqliteStorage::new_with_key(p, EncryptionConfig::new(wrong)).is_ok() {
            return Err(Failure::new("opens-with-another-key", format!("c{m}: a key differing in one bit opened the database")));
        }
        if MdkSqliteStorage::new_unencrypted(p).is_ok() {
            return Err(Failure::new("opens-without-a-key", format!("c{m}: new_unencrypted opened the encrypted database")));
        }
        if std::fs::read(p).unwrap_or_default() != before {
            return Err(Failure::new("failed-open-modified-the-file", format!("c{m}")));
        }
        let st = MdkSqliteStorage::new_with_key(p, right).map_err(|e| Failure::new("right-key-does-not-open", format!("c{m}: {e}")))?;
        let mdk = mdk_core::MDK::new(st);
        if let Some((_, f)) = fulls.iter().find(|(mm, _)| mm == m) {
            let again = crate::fingerprint::full(&mdk, &w.gid).without_clock();
            if &again != f {
                return Err(Failure::new("reopening-with-the-right-key-shows-other-data", format!("c{m}: {}", crate::oracles::diff_full(f, &again))));
            }
        }
    }
    *rep.counters.entry("sidecar-files-scanned-at-ticks".into()).or_insert(0) += sidecar_scans;
    *rep.counters.entry("needles".into()).or_insert(0) += needles.len() as u64;
    rep.classes.push(if keyring { "history-keyring".into() } else { "history-caller-key".into() });
    if rollbacks > 0 {
        rep.classes.push("history-with-rollback".into());
    }
    rep.nontrivial = true;
    Ok(())
}

fn populate(st: &MdkSqliteStorage) {
    for op in [
        sm::SOp::SaveGroup { g: 0, n: 0, name: 1, epoch: 1, state: 0, admins: 3, last: 1, img: 1, su: 1 },
        sm::SOp::ReplaceRelays { g: 0, mask: 3 },
        sm::SOp::SaveSecret { g: 0, epoch: 1, val: 9 },
        sm::SOp::SaveMessage { g: 0, m: 1, created: 0, processed: 0, epoch: 1, state: 1, content: 1, tag: 2, author: 0 },
    ] {
        sm::apply_real(st, &op, 0);
    }
}

/// The process umask for a case. Owner-only must hold under every umask, so it does not matter
/// that the umask is process-wide and other workers change it at the same time: any mixture is
/// covered by the same expectation (0600 / 0700).
fn set_umask(sel: u8) -> u32 {
    let m = [0o000, 0o027, 0o007, 0o037, 0o022, 0o077][sel as usize % 6];
    unsafe { libc::umask(m) };
    m
}

fn matrix(start: FileState, attempts: &[Ctor], nested: u8, shape: u8, rep: &mut CaseReport) -> Result<(), Failure> {
    ensure_mock_keyring();
    let m = set_umask(nested.wrapping_mul(7).wrapping_add(shape).wrapping_add(attempts.len() as u8));
    rep.classes.push(format!("umask-{m:03o}"));
    let r = matrix_inner(start, attempts, nested, shape, rep);
    unsafe { libc::umask(0o022) };
    r
}

#[derive(Clone, PartialEq, Debug)]
enum St {
    Missing,
    Empty,
    Plain,
    Enc([u8; 32]),
}

fn matrix_inner(start: FileState, attempts: &[Ctor], nested: u8, shape: u8, rep: &mut CaseReport) -> Result<(), Failure> {
    let dir = scratch_dir("c13m");
    let mut parent = dir.0.clone();
    let nested = nested % 3;
    let (dname, fname): (fn(u8) -> String, &str) = match shape % 5 {
        0 => (|i| format!("sub{i}"), "m.db"),
        1 => (|i| format!("acct:alice{i}"), "mdk:main.db"),
        2 => (|i| format!("with space {i}"), "m y.db"),
        3 => (|i| format!("donn\u{e9}es{i}"), "\u{43a}\u{43b}\u{44e}\u{447}.db"),
        _ => (|i| format!(".hidden{i}"), "2026-10-02T12:00.db"),
    };
    rep.classes.push(format!("path-names-shape-{}", shape % 5));
    for i in 0..nested {
        parent = parent.join(dname(i));
    }
    let path = parent.join(fname);
    let id_a = format!("{}#A", path.display());
    let id_b = format!("{}#B", path.display());
    let k1 = key_for_path(&path);
    let mut k2 = k1;
    k2[31] ^= 0x55;
    let key_of = |id: &str| mdk_sqlite_storage::keyring::get_db_key(KEYRING_SERVICE, id).ok().flatten().map(|c| *c.key());
    // establish the start state
    let mut state = St::Missing;
    let mut dump: Option<std::collections::BTreeMap<String, serde_json::Value>> = None;
    match start {
        FileState::Missing => {}
        FileState::Empty => {
            std::fs::create_dir_all(&parent).map_err(|e| Failure::new("setup-failed", e.to_string()))?;
            std::fs::write(&path, b"").map_err(|e| Failure::new("setup-failed", e.to_string()))?;
            state = St::Empty;
        }
        FileState::EmptyWithKeyringEntryA => {
            std::fs::create_dir_all(&parent).map_err(|e| Failure::new("setup-failed", e.to_string()))?;
            std::fs::write(&path, b"").map_err(|e| Failure::new("setup-failed", e.to_string()))?;
            mdk_sqlite_storage::keyring::get_or_create_db_key(KEYRING_SERVICE, &id_a).map_err(|e| Failure::new("setup-failed", e.to_string()))?;
            state = St::Empty;
            rep.classes.push("start:empty-file-with-keyring-entry".into());
        }
        FileState::Plain => {
            let st = MdkSqliteStorage::new_unencrypted(&path).map_err(|e| Failure::new("setup-failed", e.to_string()))?;
            populate(&st);
            dump = Some(sm::dump_real(&st));
            state = St::Plain;
        }
        FileState::EncryptedKey1 => {
            let st = MdkSqliteStorage::new_with_key(&path, EncryptionConfig::new(k1)).map_err(|e| Failure::new("setup-failed", e.to_string()))?;
            populate(&st);
            dump = Some(sm::dump_real(&st));
            state = St::Enc(k1);
        }
        FileState::EncryptedKeyringA => {
            let st = MdkSqliteStorage::new(&path, KEYRING_SERVICE, &id_a).map_err(|e| Failure::new("setup-failed", e.to_string()))?;
            populate(&st);
            dump = Some(sm::dump_real(&st));
            state = St::Enc(key_of(&id_a).ok_or_else(|| Failure::new("keyring-entry-missing-after-use", "A".to_string()))?);
        }
    }
    if start != FileState::Missing && nested > 0 {
        // directories the library created itself must be owner-only
        if matches!(start, FileState::Plain | FileState::EncryptedKey1 | FileState::EncryptedKeyringA) {
            check_dirs(&dir.0, &parent)?;
        }
    }
    let sidecars: Vec<PathBuf> = ["-journal", "-wal", "-shm"].iter().map(|sfx| parent.join(format!("{fname}{sfx}"))).collect();
    for (i, c) in attempts.iter().enumerate() {
        // now and then stale (empty) sidecar files lie next to an existing database, readable by
        // everybody - left by a crash, a restore from a backup, another tool: whatever is still
        // there after a successful open must be owner-only like the database itself
        if state != St::Missing && (i + nested as usize + shape as usize) % 2 == 0 {
            for sc in &sidecars {
                if !sc.exists() && std::fs::write(sc, b"").is_ok() {
                    let _ = std::fs::set_permissions(sc, std::fs::Permissions::from_mode(0o644));
                }
            }
            rep.classes.push("stale-sidecar-files-present".into());
        }
        let before = std::fs::read(&path).ok();
        let key_a_before = key_of(&id_a);
        let key_b_before = key_of(&id_b);
        if matches!(c, Ctor::KeyringAWriteFails) {
            crate::keystore::fail_next_write(KEYRING_SERVICE, &id_a);
        }
        let r = match c {
            Ctor::KeyringA | Ctor::KeyringAWriteFails => MdkSqliteStorage::new(&path, KEYRING_SERVICE, &id_a),
            Ctor::KeyringB => MdkSqliteStorage::new(&path, KEYRING_SERVICE, &id_b),
            Ctor::Key1 => MdkSqliteStorage::new_with_key(&path, EncryptionConfig::new(k1)),
            Ctor::Key2 => MdkSqliteStorage::new_with_key(&path, EncryptionConfig::new(k2)),
            Ctor::Unencrypted => MdkSqliteStorage::new_unencrypted(&path),
        };
        // the key this constructor presents (None = no key)
        // (an injected write fault that nothing consumed - no fresh key was needed - is taken back)
        let write_failed = matches!(c, Ctor::KeyringAWriteFails) && !crate::keystore::disarm(KEYRING_SERVICE, &id_a);
        let presented: Option<Option<[u8; 32]>> = match c {
            Ctor::KeyringA | Ctor::KeyringAWriteFails => Some(key_a_before),
            Ctor::KeyringB => Some(key_b_before),
            Ctor::Key1 => Some(Some(k1)),
            Ctor::Key2 => Some(Some(k2)),
            Ctor::Unencrypted => None,
        };
        let is_keyring = matches!(c, Ctor::KeyringA | Ctor::KeyringB | Ctor::KeyringAWriteFails);
        let expect_ok = match (&state, &presented) {
            // a key that could not be stored must not be used: no database comes into being
            (St::Missing, _) if write_failed => false,
            (St::Missing, _) => true,
            (St::Empty, None) => true,
            // an existing keyring entry is used on an empty file; without one the file counts as unencrypted
            (St::Empty, Some(k)) => is_keyring && k.is_some(),
            (St::Plain, None) => true,
            (St::Plain, Some(_)) => false,
            (St::Enc(_), None) => false,
            (St::Enc(k), Some(p)) => p.as_ref() == Some(k),
        };
        let what = format!("attempt {i}: {c:?} on a {state:?} file -> {}", match &r { Ok(_) => "Ok".to_string(), Err(e) => format!("Err({e})") });
        rep.classes.push(format!("{c:?}-on-{}->{}", match state { St::Missing => "missing", St::Empty => "empty", St::Plain => "plain", St::Enc(_) => "encrypted" }, if r.is_ok() { "ok" } else { "err" }));
        *rep.counters.entry("constructor-attempts".into()).or_insert(0) += 1;
        if r.is_ok() != expect_ok {
            return Err(Failure::new(
                if r.is_ok() { "database-opened-with-the-wrong-credentials" } else { "database-refused-the-right-credentials" },
                what,
            ));
        }
        match r {
            Err(_) if write_failed => {
                // nothing encrypted may be left behind, and no key
                if key_of(&id_a).is_some() {
                    return Err(Failure::new("keyring-key-was-replaced", format!("{what}: the keyring refused to store the key, yet an entry exists")));
                }
                match std::fs::read(&path).ok() {
                    None => {}
                    Some(b) if b.is_empty() => state = St::Empty,
                    Some(_) => return Err(Failure::new("failed-open-modified-the-file", format!("{what}: a database file was left behind although its key could not be stored"))),
                }
                rep.classes.push("keyring-write-fault-consumed".into());
            }
            Err(_) => {
                // a refused open leaves the file as it was and creates no key
                if std::fs::read(&path).ok() != before {
                    return Err(Failure::new("failed-open-modified-the-file", what));
                }
                if matches!(state, St::Enc(_) | St::Plain) && (key_of(&id_a) != key_a_before || key_of(&id_b) != key_b_before) {
                    return Err(Failure::new("key-generated-for-an-existing-database", what));
                }
            }
            Ok(st) => {
                // a keyring entry, once there, is reused
                if key_a_before.is_some() && key_of(&id_a) != key_a_before || key_b_before.is_some() && key_of(&id_b) != key_b_before {
                    return Err(Failure::new("keyring-key-was-replaced", what));
                }
                match &state {
                    St::Missing | St::Empty => {
                        populate(&st);
                        dump = Some(sm::dump_real(&st));
                        state = match c {
                            Ctor::Unencrypted => St::Plain,
                            Ctor::Key1 => St::Enc(k1),
                            Ctor::Key2 => St::Enc(k2),
                            Ctor::KeyringA | Ctor::KeyringAWriteFails => St::Enc(key_of(&id_a).ok_or_else(|| Failure::new("keyring-entry-missing-after-use", what.clone()))?),
                            Ctor::KeyringB => St::Enc(key_of(&id_b).ok_or_else(|| Failure::new("keyring-entry-missing-after-use", what.clone()))?),
                        };
                        // (only when the library created the directories itself)
                        if nested > 0 && start == FileState::Missing {
                            check_dirs(&dir.0, &parent)?;
                        }
                    }
                    _ => {
                        let d = sm::dump_real(&st);
                        if Some(&d) != dump.as_ref() {
                            return Err(Failure::new("reopening-with-the-right-key-shows-other-data", what));
                        }
                    }
                }
                if !matches!(c, Ctor::Unencrypted) {
                    let (cipher, temp_store, fk) = st.verif_pragmas().map_err(|e| Failure::new("pragma-read-failed", e.to_string()))?;
                    if cipher.is_none() || temp_store != 2 || fk != 1 {
                        return Err(Failure::new("encrypted-connection-misconfigured", format!("{what}: cipher {cipher:?}, temp_store {temp_store}, foreign_keys {fk}")));
                    }
                }
                let mode = std::fs::metadata(&path).map(|md| md.permissions().mode() & 0o777).unwrap_or(0);
                if mode != 0o600 {
                    return Err(Failure::new("database-file-not-owner-only", format!("{what}: mode {mode:o}")));
                }
                for sc in &sidecars {
                    if let Ok(md) = std::fs::metadata(sc) {
                        let mode = md.permissions().mode() & 0o777;
                        if mode != 0o600 {
                            return Err(Failure::new("database-file-not-owner-only", format!("{what}: the sidecar file {:?} next to the opened database has mode {mode:o}", sc.file_name().unwrap_or_default())));
                        }
                    }
                }
            }
        }
        // an encrypted file never starts with the SQLite magic
        if let St::Enc(_) = state {
            let head = std::fs::read(&path).unwrap_or_default();
            if head.starts_with(b"SQLite format 3") {
                return Err(Failure::new("plaintext-in-a-database-file", format!("{what}: the file has a plain SQLite header")));
            }
        }
    }
    rep.nontrivial = attempts.len() >= 2 && start != FileState::Missing;
    Ok(())
}

fn check_dirs(root: &Path, leaf: &Path) -> Result<(), Failure> {
    let mut p = leaf.to_path_buf();
    while p != root && p.starts_with(root) {
        let mode = std::fs::metadata(&p).map(|md| md.permissions().mode() & 0o777).unwrap_or(0);
        if mode != 0o700 {
            return Err(Failure::new("created-directory-not-owner-only", format!("{} has mode {:o}", p.display(), mode)));
        }
        p = match p.parent() {
            Some(x) => x.to_path_buf(),
            None => break,
        };
    }
    Ok(())
}

fn concurrent(threads: u8, with_key: bool, rep: &mut CaseReport) -> Result<(), Failure> {
    ensure_mock_keyring();
    let dir = scratch_dir("c13c");
    let path = dir.0.join("shared.db");
    let id = format!("{}#shared", path.display());
    let n = threads.clamp(2, 16) as usize;
    let barrier = std::sync::Arc::new(std::sync::Barrier::new(n));
    let results: Vec<Result<MdkSqliteStorage, String>> = std::thread::scope(|s| {
        let hs: Vec<_> = (0..n)
            .map(|_| {
                let b = barrier.clone();
                let path = path.clone();
                let id = id.clone();
                s.spawn(move || {
                    b.wait();
                    std::panic::catch_unwind(|| {
                        if with_key {
                            MdkSqliteStorage::new_with_key(&path, EncryptionConfig::new(key_for_path(&path))).map_err(|e| e.to_string())
                        } else {
                            MdkSqliteStorage::new(&path, KEYRING_SERVICE, &id).map_err(|e| e.to_string())
                        }
                    })
                    .unwrap_or_else(|_| Err("PANIC".to_string()))
                })
            })
            .collect();
        hs.into_iter().map(|h| h.join().unwrap_or_else(|_| Err("PANIC".into()))).collect()
    });
    if results.iter().any(|r| matches!(r, Err(e) if e == "PANIC")) {
        return Err(Failure::new("panic", "a concurrent first open panicked".to_string()));
    }
    if std::env::var("VCHECK_C13_DEBUG").is_ok() {
        for r in &results {
            if let Err(e) = r {
                println!("  concurrent open failed: {e}");
            }
        }
    }
    for r in &results {
        if let Err(e) = r {
            let kind = e.split(':').next().unwrap_or("").chars().take(40).collect::<String>();
            rep.classes.push(format!("concurrent-open-error:{kind}"));
        }
    }
    if let Some(e) = results.iter().find_map(|r| r.as_ref().err()) {
        return Err(Failure::new(
            "database-refused-the-right-credentials",
            format!("{n} threads opened the same new path at once with {}: one of them was refused: {e}", if with_key { "the same caller key" } else { "the keyring constructor" }),
        ));
    }
    let oks: Vec<&MdkSqliteStorage> = results.iter().filter_map(|r| r.as_ref().ok()).collect();
    *rep.counters.entry("concurrent-opens".into()).or_insert(0) += n as u64;
    *rep.counters.entry("concurrent-opens-succeeded".into()).or_insert(0) += oks.len() as u64;
    if with_key {
        // no keyring involved: the file is encrypted with that key and nothing else opens it
        drop(results);
        MdkSqliteStorage::new_with_key(&path, EncryptionConfig::new(key_for_path(&path)))
            .map_err(|e| Failure::new("database-refused-the-right-credentials", format!("open after the race: {e}")))?;
        let mut other = key_for_path(&path);
        other[0] ^= 1;
        if MdkSqliteStorage::new_with_key(&path, EncryptionConfig::new(other)).is_ok() || MdkSqliteStorage::new_unencrypted(&path).is_ok() {
            return Err(Failure::new("database-opened-with-the-wrong-credentials", "after concurrent first opens with a caller key".to_string()));
        }
        rep.classes.push(format!("concurrent-open-with-key-{}-threads", n));
        rep.nontrivial = true;
        return Ok(());
    }
    let key = mdk_sqlite_storage::keyring::get_db_key(KEYRING_SERVICE, &id).map_err(|e| Failure::new("keyring-unreadable", e.to_string()))?;
    let Some(key) = key else {
        if oks.is_empty() {
            return Ok(());
        }
        return Err(Failure::new("keyring-entry-missing-after-use", format!("{} opens succeeded", oks.len())));
    };
    // every successful instance reads what another one wrote
    if let Some(first) = oks.first() {
        populate(first);
        let want = sm::dump_real(*first);
        for (i, o) in oks.iter().enumerate() {
            if sm::dump_real(*o) != want {
                return Err(Failure::new("concurrent-instances-do-not-share-the-database", format!("instance {i} of {} reads other data", oks.len())));
            }
        }
    }
    drop(results);
    // afterwards a normal open works, with that one key
    MdkSqliteStorage::new(&path, KEYRING_SERVICE, &id).map_err(|e| Failure::new("database-refused-the-right-credentials", format!("open after the race: {e}")))?;
    MdkSqliteStorage::new_with_key(&path, EncryptionConfig::new(*key.key()))
        .map_err(|e| Failure::new("keyring-key-does-not-open-the-database", format!("after the race: {e}")))?;
    if mdk_sqlite_storage::keyring::get_db_key(KEYRING_SERVICE, &id).ok().flatten().map(|k| *k.key()) != Some(*key.key()) {
        return Err(Failure::new("keyring-key-was-replaced", "after the race".to_string()));
    }
    rep.classes.push(format!("concurrent-open-{}-threads", n));
    rep.nontrivial = true;
    Ok(())
}

pub fn exec(case: &Case, _mode: Mode) -> Result<CaseReport, Failure> {
    let mut rep = CaseReport::default();
    match case {
        Case::History { plan, keyring, big } => history(plan, *keyring, *big, &mut rep)?,
        Case::Matrix { start, attempts, nested_dirs, name_shape } => matrix(*start, attempts, *nested_dirs, *name_shape, &mut rep)?,
        Case::ConcurrentOpen { threads, with_key } => concurrent(*threads, *with_key, &mut rep)?,
    }
    Ok(rep)
}

pub fn main(args: &Args) -> i32 {
    let (cases, len) = match args.tier {
        Tier::Quick => (260, 6..28),
        Tier::Thorough => (16 * 1500, 6..50),
    };
    let opts = SetupOpts {
        min_members: 2,
        max_members: 3,
        all_sql: true,
        spares: 1,
        regimes: vec![Regime::Causal, Regime::Unrestricted],
        retention: 2..=4,
        with_reference: false,
        ..SetupOpts::default()
    };
    let weights = Weights { msg: 8, data: 6, immediate: 0, ..Weights::default() };
    let spec = Spec {
        id: "C13",
        level: "exploration",
        rule: "three generated case families. (1) histories (messages incl. 20-50 KB values, group-data changes, races and rollbacks) on SQLCipher storage opened with a caller key or through the (mock) keyring, under umasks 000 / 007 / 022 / 027 / 037 / 077: the canaries read back through the API (message texts, group names/descriptions, relay URL, member public keys, MLS and Nostr group ids, exporter secrets of every epoch, image keys, the database key; raw, hex in both cases, base64) are searched in every -journal/-wal/-shm/temp file at every storage tick and in every file of the directory at rest; then pragmas, file mode 0600, one-bit-wrong key / no key refused without touching the file, right key yields the same fingerprint. (2) constructor x file-state matrix: {keyring A, keyring B, key 1, key 2, unencrypted, keyring A while the keyring refuses to store a fresh key (the open must fail and leave neither key nor database)} in generated order on one path starting {missing, empty, plain, encrypted with key 1, encrypted through keyring A}, optionally below 1-2 directories the library must create (0700), now and then with stale world-readable sidecar files next to the database (owner-only after a successful open): Ok/Err per model, refused opens leave file and keyring untouched, keyring entries are reused, the right credentials show the same dump. (3) 2..16 threads opening one new path through the keyring at once: no panic, one key, instances share rows, normal open afterwards. Non-trivial = every history / concurrent case, matrix cases with >= 2 attempts on an existing file; distinct = distinct cases".into(),
        assumptions: vec![
            "the platform keyring is the in-process mock store of keyring-core".into(),
            "rollback journals of single autocommitted statements exist only during the statement: they are seen where a storage tick falls inside the explicit transactions, and at rest".into(),
            "needles shorter than 8 bytes or made of one repeated byte are not searched (accidental matches)".into(),
        ],
        min_nontrivial: 20,
        max_shrink_iters: 200,
        exhaustive: false,
    };
    let ctor = prop::sample::select(vec![Ctor::KeyringA, Ctor::KeyringA, Ctor::KeyringB, Ctor::KeyringB, Ctor::Key1, Ctor::Key1, Ctor::Key2, Ctor::Key2, Ctor::Unencrypted, Ctor::Unencrypted, Ctor::KeyringAWriteFails]);
    let fstate = prop::sample::select(vec![FileState::Missing, FileState::Empty, FileState::Plain, FileState::EncryptedKey1, FileState::EncryptedKeyringA, FileState::EmptyWithKeyringEntryA]);
    drive(
        args,
        spec,
        RunPlan { cases, workers: 16 },
        || {
            prop_oneof![
                3 => (plan_strategy(&opts, &weights, len.clone()), any::<bool>(), 0u8..5).prop_map(|(plan, keyring, big)| Case::History { plan, keyring, big }),
                5 => (fstate.clone(), prop::collection::vec(ctor.clone(), 1..7), 0u8..3, prop_oneof![2 => Just(0u8), 3 => 1u8..5]).prop_map(|(start, attempts, nested_dirs, name_shape)| Case::Matrix { start, attempts, nested_dirs, name_shape }),
                2 => (2u8..17, any::<bool>()).prop_map(|(threads, with_key)| Case::ConcurrentOpen { threads, with_key }),
            ]
        },
        exec,
    )
}
