//! C07 — re-delivering an already handled event changes nothing.

use crate::oracles::RedeliveryObserver;
use crate::plangen::{SetupOpts, Weights, plan_strategy};
use crate::props::common::{base_report, run_plan};
use crate::runner::{Args, CaseReport, Failure, Mode, RunPlan, Spec, Tier, drive};
use crate::world::{Plan, Regime};
use proptest::prelude::*;

pub fn exec(plan: &Plan, mode: Mode) -> Result<CaseReport, Failure> {
    let mut obs = RedeliveryObserver::default();
    let fin = run_plan(plan, mode, &mut obs)?;
    let mut rep = base_report(&fin);
    rep.nontrivial = obs.nontrivial > 0;
    for (k, v) in &obs.kinds {
        rep.classes.push(format!("redelivered:{k}"));
        *rep.counters.entry(format!("redelivered:{k}")).or_insert(0) += v;
    }
    *rep.counters.entry("redeliveries-judged".into()).or_insert(0) += obs.checked;
    Ok(rep)
}

pub fn main(args: &Args) -> i32 {
    let (cases, len, sql) = match args.tier {
        Tier::Quick => (800, 10..45, 15),
        Tier::Thorough => (16 * 1200, 10..70, 30),
    };
    let opts = SetupOpts {
        sql_percent: sql,
        regimes: vec![Regime::Causal, Regime::Unrestricted],
        retention: 1..=6,
        ..SetupOpts::default()
    };
    let weights = Weights {
        msg: 6,
        redeliver: 10,
        restart: 1,
        // refused rivals of a commit that is applied (and re-delivered) later
        rogue_commit: 2,
        reinvite: true,
        ..Weights::default()
    };
    let spec = Spec {
        id: "C07",
        level: "exploration",
        rule: "C01/C02-style plans with explicit re-deliveries (plus the re-offering of every event during quiescence) and forged commits that receivers refuse (rivals of the commits applied and re-delivered later); a quarter of the histories run their memory clients with a per-group message limit of 2..7; each re-delivery of an event whose earlier hand-over took effect at that client is judged by full before/after fingerprint equality; non-trivial = the client's MLS state changed between first handling and the re-delivery; distinct = distinct plans".into(),
        assumptions: vec![
            "'took effect' = an earlier hand-over returned an application message, a commit, a pending proposal or an auto-commit".into(),
            "the returned result value itself is free".into(),
        ],
        min_nontrivial: 20,
        max_shrink_iters: 300,
        exhaustive: false,
    };
    drive(
        args,
        spec,
        RunPlan { cases, workers: 16 },
        || {
            // a quarter of the histories give the memory clients a tiny per-group message limit:
            // a re-delivery at a full store must not push anything out
            (plan_strategy(&opts, &weights, len.clone()), prop_oneof![3 => Just(0usize), 1 => 2usize..8])
                .prop_map(|(mut p, lim)| {
                    p.setup.cfg.mem_msg_limit = lim;
                    p
                })
                .boxed()
        },
        exec,
    )
}
