//! C17 — media and group-image encryption round-trips, is tamper-evident, outlives epochs.

use chacha20poly1305::aead::{Aead, KeyInit};
use chacha20poly1305::{ChaCha20Poly1305, Nonce};
use mdk_core::encrypted_media::crypto::derive_encryption_key;
use mdk_core::encrypted_media::MediaReference;
use mdk_core::extension::{decrypt_group_image, prepare_group_image_for_upload};
use mdk_storage_traits::Secret;
use nostr::{EventBuilder, Kind, Timestamp};
use proptest::prelude::*;
use serde::{Deserialize, Serialize};
use sha2::{Digest, Sha256};

use crate::on_mdk;
use crate::plangen::{SetupOpts, Weights, op_strategy, setup_strategy};
use crate::runner::{Args, CaseReport, Failure, Mode, RunPlan, Spec, Tier, drive, set_last_trace};
use crate::world::{NoObserver, Op, Regime, Setup, World};

#[derive(Clone, Debug, PartialEq, Eq, Hash, Serialize, Deserialize)]
pub struct FileSpec {
    pub mime: u8,
    pub size: u32,
    pub filename: String,
    pub mime_spelling: u8,
}

#[derive(Clone, Debug, PartialEq, Eq, Hash, Serialize, Deserialize)]
pub enum Case {
    /// a file shared in a group, decrypted later by everyone
    Shared { setup: Setup, before: Vec<Op>, file: FileSpec, sender: u16, between: Vec<Op>, tamper: Vec<u16> },
    /// group image: v2 preparation, v1 blobs
    GroupImage { w: u8, h: u8, seed: u8, tamper: Vec<u16>, v1: bool },
    /// a group whose image is set at creation (or not) and then replaced 1..3 times: every member
    /// decrypts the current blob with what its stored group record publishes
    GroupImageInGroup { admin_sql: bool, member_sql: bool, with_initial: bool, replacements: u8, restart: bool },
}

fn png(w: u32, h: u32, seed: u8) -> Vec<u8> {
    let img = image::RgbImage::from_fn(w.max(1), h.max(1), |x, y| image::Rgb([(x as u8).wrapping_mul(seed | 1), (y as u8).wrapping_add(seed), seed]));
    let mut out = std::io::Cursor::new(Vec::new());
    img.write_to(&mut out, image::ImageFormat::Png).expect("png");
    out.into_inner()
}
fn jpeg(w: u32, h: u32, seed: u8) -> Vec<u8> {
    let img = image::RgbImage::from_fn(w.max(1), h.max(1), |x, y| image::Rgb([(x as u8).wrapping_add(seed), (y as u8).wrapping_mul(3), seed]));
    let mut out = std::io::Cursor::new(Vec::new());
    img.write_to(&mut out, image::ImageFormat::Jpeg).expect("jpeg");
    out.into_inner()
}

fn file_of(f: &FileSpec) -> (String, Vec<u8>) {
    let bytes = |n: usize, k: usize| -> Vec<u8> { (0..n).map(|i| (i.wrapping_mul(k) >> 3) as u8).collect() };
    let size = f.size as usize;
    let (mime, data): (&str, Vec<u8>) = match f.mime % 7 {
        0 => ("image/png", png(2 + f.size % 40, 2 + f.size % 23, f.size as u8)),
        1 => ("image/jpeg", jpeg(2 + f.size % 31, 2 + f.size % 17, f.size as u8)),
        2 => ("application/pdf", bytes(size, 7)),
        3 => ("text/plain", bytes(size, 13)),
        4 => ("audio/mpeg", bytes(size, 5)),
        5 => ("video/mp4", bytes(size, 11)),
        _ => ("application/octet-stream", bytes(size, 3)),
    };
    let spelled = match f.mime_spelling % 4 {
        0 => mime.to_string(),
        1 => mime.to_uppercase(),
        2 => format!("{mime}; charset=utf-8"),
        _ => format!(" {mime} "),
    };
    (spelled, data)
}

fn shared(setup: &Setup, before: &[Op], file: &FileSpec, sender: u16, between: &[Op], tamper: &[u16], mode: Mode, rep: &mut CaseReport) -> Result<(), Failure> {
    let mut setup = setup.clone();
    setup.with_reference = false;
    let mut w = World::new(&setup).map_err(|e| Failure::new("setup-failed", e))?;
    let r = shared_inner(&mut w, before, file, sender, between, tamper, mode, rep);
    if r.is_err() {
        set_last_trace(std::mem::take(&mut w.trace));
    }
    r
}

#[allow(clippy::too_many_arguments)]
fn shared_inner(w: &mut World, before: &[Op], file: &FileSpec, sender: u16, between: &[Op], tamper: &[u16], mode: Mode, rep: &mut CaseReport) -> Result<(), Failure> {
    let mut obs = NoObserver;
    for op in before {
        w.apply_op(op, &mut obs)?;
    }
    let Some(s) = w.active_sel(sender) else { return Ok(()) };
    let gid = w.gid.clone();
    let (mime, data) = file_of(file);
    let filename = file.filename.clone();
    // ---- the sender encrypts and announces
    let up = match on_mdk!(w.clients[s].mdk(), m => m.media_manager(gid.clone()).encrypt_for_upload(&data, &mime, &filename)) {
        Ok(u) => u,
        Err(e) => {
            rep.classes.push("input-refused-by-validation".into());
            w.note(format!("encrypt_for_upload refused: {e}"));
            return Ok(());
        }
    };
    let url = format!("https://blossom.example.net/{}", hex::encode(up.encrypted_hash));
    let (tag, reference) = on_mdk!(w.clients[s].mdk(), m => {
        let mm = m.media_manager(gid.clone());
        (mm.create_imeta_tag(&up, &url), mm.create_media_reference(&up, url.clone()))
    });
    // the sender's own decryption is the expected plaintext (the sanitised file)
    let expected = on_mdk!(w.clients[s].mdk(), m => m.media_manager(gid.clone()).decrypt_from_download(&up.encrypted_data, &reference))
        .map_err(|e| Failure::new("sender-cannot-decrypt-its-own-upload", format!("{mime} {filename:?} {} bytes: {e}", data.len())))?;
    let h: [u8; 32] = Sha256::digest(&expected).into();
    if h != up.original_hash {
        return Err(Failure::new("decrypted-bytes-do-not-match-the-published-hash", format!("{mime} {filename:?}")));
    }
    if !mime.trim().to_lowercase().starts_with("image/") && expected != data {
        return Err(Failure::new("decrypted-bytes-differ-from-the-original", format!("{mime} {filename:?}: {} vs {} bytes", expected.len(), data.len())));
    }
    let canary = format!("canary-{}-{}", w.step + 1, s);
    let pk = w.clients[s].keys.public_key();
    let rumor = EventBuilder::new(Kind::Custom(9), canary.clone()).tag(tag.clone()).custom_created_at(Timestamp::from_secs(w.t0 + 100)).build(pk);
    let base = w.clients[s].cur.clone();
    let sender_epoch = base.as_ref().map(|b| b.epoch).unwrap_or(0);
    w.step += 1;
    let ev = match on_mdk!(w.clients[s].mdk(), m => m.create_message(&gid, rumor.clone())) {
        Ok(e) => e,
        Err(e) => {
            w.note(format!("announcement refused: {e}"));
            return Ok(());
        }
    };
    let mut stored = rumor.clone();
    stored.ensure_id();
    let ann = w.publish_app(s, base, ev, stored, canary.clone());
    // ---- life goes on
    for op in between {
        w.apply_op(op, &mut obs)?;
    }
    w.quiesce(&mut obs, 10)?;
    let roster = w.relay[ann].roster_at_send.clone();
    rep.classes.push(format!("mime:{}", mime.trim().to_lowercase().split(';').next().unwrap_or("")));
    // ---- everybody tries
    for m in w.actors() {
        let cl = &w.clients[m];
        if cl.mdk.is_none() {
            continue;
        }
        let member_then = roster.contains(&cl.pk_hex());
        let msg = on_mdk!(cl.mdk(), mm => mm.get_messages(&gid, None)).unwrap_or_default().into_iter().find(|x| x.content == canary);
        let now_epoch = cl.cur.as_ref().map(|c| c.epoch);
        let result = on_mdk!(cl.mdk(), mm => {
            let mg = mm.media_manager(gid.clone());
            // a receiver works from the tag it stored; others only have the public reference
            let r = match &msg {
                Some(x) => match x.tags.iter().find(|t| t.kind() == nostr::TagKind::Custom("imeta".into())) {
                    Some(t) => mg.parse_imeta_tag(t),
                    None => Ok(reference.clone()),
                },
                None => Ok(reference.clone()),
            };
            r.and_then(|rf| mg.decrypt_from_download(&up.encrypted_data, &rf))
        });
        *rep.counters.entry("decryption-attempts".into()).or_insert(0) += 1;
        let who = format!(
            "c{m} ({}, {} the announcement, now at epoch {now_epoch:?}, file shared in epoch {sender_epoch})",
            if member_then { "member of the sending epoch" } else { "not a member of the sending epoch" },
            if msg.is_some() { "holds" } else { "does not hold" }
        );
        match (&result, member_then) {
            (Ok(bytes), true) => {
                if *bytes != expected {
                    return Err(Failure::new("decryption-returned-different-bytes", who));
                }
                if let Some(e) = now_epoch {
                    if e != sender_epoch {
                        rep.nontrivial = true;
                        rep.classes.push(format!("decrypted-{}-epochs-later", e.saturating_sub(sender_epoch).min(7)));
                    }
                }
            }
            (Ok(_), false) => {
                return Err(Failure::new("non-member-decrypted-the-file", who));
            }
            (Err(e), true) => {
                // clients that hold the announcement are owed the file - also after they were
                // removed: they were members of that epoch and keep its announcement and secret
                if msg.is_none() {
                    rep.classes.push("member-without-announcement".into());
                    continue;
                }
                if cl.cur.is_none() {
                    rep.classes.push("former-member-asked-to-decrypt".into());
                }
                let stored_epoch = msg.as_ref().and_then(|x| x.epoch);
                let invalidated = msg.as_ref().map(|x| x.state == mdk_storage_traits::messages::types::MessageState::EpochInvalidated).unwrap_or(false);
                // (the sender's own copy is filed at creation, under the sending epoch: when its
                // echo comes back makes no difference, so the sender is only excused for a copy
                // that a rollback invalidated)
                if (stored_epoch != Some(sender_epoch) && m != s) || invalidated {
                    // listed: the epoch hint is the receiver's epoch at processing time (O4b)
                    if mode == Mode::Strict {
                        return Err(Failure::new("media:O4b-epoch-hint-is-the-receivers-epoch", format!("{who}: {e}; its copy of the announcement is filed under epoch {stored_epoch:?}")));
                    }
                    rep.excused.push("O4b-epoch-hint-is-the-receivers-epoch".into());
                    rep.nontrivial = true;
                    continue;
                }
                return Err(Failure::new("member-of-the-sending-epoch-cannot-decrypt", format!("{who}: {e}")));
            }
            (Err(_), false) => {
                rep.classes.push("non-member-refused".into());
            }
        }
    }
    // ---- tampering, judged at the sender (who can decrypt)
    let try_dec = |data: &[u8], rf: &MediaReference| on_mdk!(w.clients[s].mdk(), m => m.media_manager(gid.clone()).decrypt_from_download(data, rf));
    if try_dec(&up.encrypted_data, &reference).is_ok() {
        for t in tamper {
            let mut enc = up.encrypted_data.clone();
            let mut rf = reference.clone();
            let what = match t % 7 {
                0 | 1 => {
                    if enc.is_empty() {
                        continue;
                    }
                    let i = ((*t as usize / 7) * enc.len()) / (u16::MAX as usize / 7 + 1);
                    let last = enc.len() - 1; enc[i.min(last)] ^= 1 << (t % 8);
                    "ciphertext bit"
                }
                2 => {
                    rf.nonce[(*t as usize / 7) % 12] ^= 1 << (t % 8);
                    "nonce bit"
                }
                3 => {
                    let par = *t as usize / 7;
                    let orig = rf.filename.clone();
                    rf.filename = match par % 5 {
                        0 => format!("x{orig}"),
                        1 => format!("{orig}x"),
                        2 => format!("{orig} "),
                        3 => {
                            // the case of one ASCII letter
                            let mut b = orig.clone().into_bytes();
                            if let Some(i) = (0..b.len()).map(|k| (k + par / 5) % b.len().max(1)).find(|&i| b[i].is_ascii_alphabetic()) {
                                b[i] ^= 0x20;
                            }
                            String::from_utf8(b).unwrap_or(orig.clone())
                        }
                        _ => {
                            // one low bit of one ASCII byte
                            let mut b = orig.clone().into_bytes();
                            if let Some(i) = (0..b.len()).map(|k| (k + par / 5) % b.len().max(1)).find(|&i| b[i].is_ascii_alphanumeric()) {
                                b[i] ^= 1;
                            }
                            String::from_utf8(b).unwrap_or(orig.clone())
                        }
                    };
                    if rf.filename == orig {
                        rf.filename = format!("x{orig}");
                    }
                    "file name"
                }
                4 => {
                    rf.mime_type = if rf.mime_type == "text/plain" { "application/pdf".into() } else { "text/plain".into() };
                    "MIME type"
                }
                5 => {
                    rf.original_hash[(*t as usize / 7) % 32] ^= 1 << (t % 8);
                    "content hash"
                }
                _ => {
                    let par = *t as usize / 7;
                    let orig = rf.scheme_version.clone();
                    rf.scheme_version = match par % 4 {
                        0 => "mip04-v1".into(),
                        1 => "mip04-v3".into(),
                        _ => {
                            // one bit of one byte (bits 0..6: the result stays ASCII; bit 5 is the letter case)
                            let mut b = orig.clone().into_bytes();
                            if !b.is_empty() {
                                let i = (par / 4) % b.len();
                                b[i] ^= 1 << ((par / 4 / b.len().max(1)) % 7);
                            }
                            String::from_utf8(b).unwrap_or_else(|_| "mip04-v1".into())
                        }
                    };
                    if rf.scheme_version == orig {
                        rf.scheme_version = "mip04-v1".into();
                    }
                    "scheme version"
                }
            };
            *rep.counters.entry("tamper-attempts".into()).or_insert(0) += 1;
            rep.classes.push(format!("tamper:{what}"));
            rep.nontrivial = true;
            if let Ok(b) = try_dec(&enc, &rf) {
                return Err(Failure::new(
                    "tampered-input-decrypted",
                    format!("after changing the {what} decryption still succeeds ({} bytes, {} the original)", b.len(), if b == expected { "equal to" } else { "different from" }),
                ));
            }
        }
        // different files / names / types never share a key
        let key = |hash: &[u8; 32], mt: &str, name: &str| on_mdk!(w.clients[s].mdk(), m => derive_encryption_key(m, &gid, "mip04-v2", hash, mt, name)).ok().map(|k| *k);
        let k0 = key(&reference.original_hash, &reference.mime_type, &reference.filename);
        let mut h2 = reference.original_hash;
        h2[0] ^= 1;
        let others = [
            key(&h2, &reference.mime_type, &reference.filename),
            key(&reference.original_hash, "application/x-other", &reference.filename),
            key(&reference.original_hash, &reference.mime_type, &format!("{}x", reference.filename)),
        ];
        // (a sender that was removed meanwhile can no longer derive current-epoch keys at all)
        if k0.is_some() && others.iter().any(|k| k.is_none() || *k == k0) {
            return Err(Failure::new("different-files-share-a-key", format!("{mime} {filename:?}")));
        }
        // names that only look alike are different names too (a refused name is fine)
        let swapped: String = reference.filename.chars().map(|c| if c.is_ascii_lowercase() { c.to_ascii_uppercase() } else { c.to_ascii_lowercase() }).collect();
        let near = [swapped, format!(" {}", reference.filename), format!("{} ", reference.filename), format!("{}\t", reference.filename)];
        for n in near.iter().filter(|n| **n != reference.filename) {
            *rep.counters.entry("near-miss-file-names".into()).or_insert(0) += 1;
            if k0.is_some() && key(&reference.original_hash, &reference.mime_type, n) == k0 {
                return Err(Failure::new("different-files-share-a-key", format!("{mime}: the names {:?} and {n:?} derive one key", reference.filename)));
            }
        }
    }
    Ok(())
}

fn group_image_in_group(admin_sql: bool, member_sql: bool, with_initial: bool, replacements: u8, restart: bool, rep: &mut CaseReport) -> Result<(), Failure> {
    use crate::world::{BackendKind, Cfg, RollbackRecorder, open_client_mdk, relay_url, scratch_dir};
    let dir = scratch_dir("c17img");
    let kind = |sql: bool| if sql { BackendKind::Sql } else { BackendKind::Mem };
    let open = |sql: bool, name: &str| open_client_mdk(kind(sql), Some(&dir.0.join(name)), &Cfg::default(), std::sync::Arc::new(RollbackRecorder::default())).map_err(|e| Failure::new("setup-failed", e));
    let mut a = open(admin_sql, "admin.db")?;
    let mut b = open(member_sql, "member.db")?;
    let (ak, bk) = (nostr::Keys::generate(), nostr::Keys::generate());
    let (apk, bpk) = (ak.public_key(), bk.public_key());
    let kp = {
        let (content, tags, _) = on_mdk!(&b, m => m.create_key_package_for_event(&bpk, vec![relay_url(0)])).map_err(|e| Failure::new("setup-failed", e.to_string()))?;
        EventBuilder::new(Kind::MlsKeyPackage, content).tags(tags).sign_with_keys(&bk).map_err(|e| Failure::new("setup-failed", e.to_string()))?
    };
    let image = |i: u8| png(3 + i as u32 * 2, 4 + i as u32, 17u8.wrapping_mul(i + 1));
    let mut current: Option<(Vec<u8>, Vec<u8>)> = None; // (plain, blob)
    let (h0, k0, n0) = if with_initial {
        let up = prepare_group_image_for_upload(&image(0), "image/png").map_err(|e| Failure::new("group-image-not-prepared", e.to_string()))?;
        current = Some((image(0), up.encrypted_data.as_ref().clone()));
        (Some(up.encrypted_hash), Some(*up.image_key.as_ref()), Some(*up.image_nonce.as_ref()))
    } else {
        (None, None, None)
    };
    let cfg = mdk_core::groups::NostrGroupConfigData::new("with image".into(), "d".into(), h0, k0, n0, vec![relay_url(0)], vec![apk]);
    let res = on_mdk!(&a, m => m.create_group(&apk, vec![kp], cfg)).map_err(|e| Failure::new("setup-failed", e.to_string()))?;
    let gid = res.group.mls_group_id.clone();
    on_mdk!(&a, m => m.merge_pending_commit(&gid)).map_err(|e| Failure::new("setup-failed", e.to_string()))?;
    let rumor = res.welcome_rumors.first().cloned().ok_or_else(|| Failure::new("setup-failed", "no welcome".to_string()))?;
    let wl = on_mdk!(&b, m => m.process_welcome(&nostr::EventId::all_zeros(), &rumor)).map_err(|e| Failure::new("setup-failed", e.to_string()))?;
    on_mdk!(&b, m => m.accept_welcome(&wl)).map_err(|e| Failure::new("setup-failed", e.to_string()))?;
    let check = |who: &str, mdk: &crate::world::AnyMdk, current: &Option<(Vec<u8>, Vec<u8>)>, when: &str| -> Result<(), Failure> {
        let Some((plain, blob)) = current else { return Ok(()) };
        let rec = on_mdk!(mdk, m => m.get_group(&gid)).ok().flatten().ok_or_else(|| Failure::new("setup-failed", format!("{who}: no group record")))?;
        let (Some(key), Some(nonce)) = (rec.image_key.as_ref(), rec.image_nonce.as_ref()) else {
            return Err(Failure::new("group-image-does-not-decrypt-with-published-seed-and-nonce", format!("{who}, {when}: the stored group data publishes no seed / nonce (hash {:?})", rec.image_hash.map(hex::encode))));
        };
        let out = decrypt_group_image(blob, rec.image_hash.as_ref(), key, nonce)
            .map_err(|e| Failure::new("group-image-does-not-decrypt-with-published-seed-and-nonce", format!("{who}, {when}: {e}")))?;
        let (d, o) = (image::load_from_memory(&out), image::load_from_memory(plain));
        match (d, o) {
            (Ok(d), Ok(o)) if d.to_rgb8() == o.to_rgb8() => Ok(()),
            _ => Err(Failure::new("group-image-decrypts-to-different-bytes", format!("{who}, {when}"))),
        }
    };
    check("the admin", &a, &current, "after creating the group")?;
    check("the member", &b, &current, "after joining")?;
    for i in 1..=replacements.clamp(1, 3) {
        let up = prepare_group_image_for_upload(&image(i), "image/png").map_err(|e| Failure::new("group-image-not-prepared", e.to_string()))?;
        let mut upd = mdk_core::groups::NostrGroupDataUpdate::default();
        upd.image_hash = Some(Some(up.encrypted_hash));
        upd.image_key = Some(Some(*up.image_key.as_ref()));
        upd.image_nonce = Some(Some(*up.image_nonce.as_ref()));
        upd.image_upload_key = Some(Some(*up.image_upload_key.as_ref()));
        let r = on_mdk!(&a, m => m.update_group_data(&gid, upd)).map_err(|e| Failure::new("setup-failed", e.to_string()))?;
        on_mdk!(&a, m => m.merge_pending_commit(&gid)).map_err(|e| Failure::new("setup-failed", e.to_string()))?;
        let _ = on_mdk!(&b, m => m.process_message(&r.evolution_event));
        current = Some((image(i), up.encrypted_data.as_ref().clone()));
        let when = format!("after image replacement {i}");
        check("the admin", &a, &current, &when)?;
        check("the member", &b, &current, &when)?;
        rep.classes.push(format!("group-image-replaced-{i}-times"));
    }
    if restart {
        for (sql, mdk, name, who) in [(admin_sql, &mut a, "admin.db", "the admin"), (member_sql, &mut b, "member.db", "the member")] {
            if sql {
                *mdk = open_client_mdk(BackendKind::Mem, None, &Cfg::default(), std::sync::Arc::new(RollbackRecorder::default())).map_err(|e| Failure::new("setup-failed", e))?;
                *mdk = open(true, name)?;
                check(who, mdk, &current, "after a restart")?;
            }
        }
    }
    rep.classes.push(format!("group-image-in-group:{}-{}", if admin_sql { "sql" } else { "mem" }, if member_sql { "sql" } else { "mem" }));
    rep.nontrivial = true;
    Ok(())
}

fn group_image(w_: u8, h_: u8, seed: u8, tamper: &[u16], v1: bool, rep: &mut CaseReport) -> Result<(), Failure> {
    let data = png(2 + w_ as u32 % 60, 2 + h_ as u32 % 45, seed);
    if v1 {
        // a version-1 blob: the key is used directly
        let key = [seed.wrapping_mul(3).wrapping_add(1); 32];
        let mut key2 = key;
        key2[5] ^= 0x5A;
        let nonce = [seed.wrapping_add(9); 12];
        let cipher = ChaCha20Poly1305::new_from_slice(&key2).map_err(|e| Failure::new("setup-failed", e.to_string()))?;
        let enc = cipher.encrypt(Nonce::from_slice(&nonce), data.as_ref()).map_err(|e| Failure::new("setup-failed", e.to_string()))?;
        let hash: [u8; 32] = Sha256::digest(&enc).into();
        let out = decrypt_group_image(&enc, Some(&hash), &Secret::new(key2), &Secret::new(nonce)).map_err(|e| Failure::new("v1-group-image-does-not-decrypt", e.to_string()))?;
        if out != data {
            return Err(Failure::new("group-image-decrypts-to-different-bytes", "v1".to_string()));
        }
        if decrypt_group_image(&enc, Some(&hash), &Secret::new(key), &Secret::new(nonce)).is_ok() {
            return Err(Failure::new("group-image-decrypts-with-the-wrong-key", "v1".to_string()));
        }
        rep.classes.push("group-image-v1".into());
        rep.nontrivial = true;
        return Ok(());
    }
    let up = prepare_group_image_for_upload(&data, "image/png").map_err(|e| Failure::new("group-image-not-prepared", e.to_string()))?;
    let enc: Vec<u8> = up.encrypted_data.as_ref().clone();
    let out = decrypt_group_image(&enc, Some(&up.encrypted_hash), &up.image_key, &up.image_nonce).map_err(|e| Failure::new("group-image-does-not-decrypt-with-published-seed-and-nonce", e.to_string()))?;
    let dec = image::load_from_memory(&out).map_err(|e| Failure::new("group-image-decrypts-to-garbage", e.to_string()))?;
    let orig = image::load_from_memory(&data).unwrap();
    if dec.to_rgb8() != orig.to_rgb8() {
        return Err(Failure::new("group-image-decrypts-to-different-bytes", "pixels differ".to_string()));
    }
    rep.classes.push("group-image-v2".into());
    for t in tamper {
        let mut e2 = enc.clone();
        let mut key = *up.image_key;
        let mut nonce = *up.image_nonce;
        let mut hash = up.encrypted_hash;
        let what = match t % 4 {
            0 => {
                let i = ((*t as usize / 4) * e2.len()) / (u16::MAX as usize / 4 + 1);
                let last = e2.len() - 1; e2[i.min(last)] ^= 1 << (t % 8);
                // the published hash pins the ciphertext
                "ciphertext bit"
            }
            1 => {
                key[(*t as usize / 4) % 32] ^= 1 << (t % 8);
                "seed bit"
            }
            2 => {
                nonce[(*t as usize / 4) % 12] ^= 1 << (t % 8);
                "nonce bit"
            }
            _ => {
                hash[(*t as usize / 4) % 32] ^= 1 << (t % 8);
                "hash bit"
            }
        };
        *rep.counters.entry("tamper-attempts".into()).or_insert(0) += 1;
        rep.classes.push(format!("image-tamper:{what}"));
        if decrypt_group_image(&e2, Some(&hash), &Secret::new(key), &Secret::new(nonce)).is_ok() {
            return Err(Failure::new("tampered-input-decrypted", format!("group image: after changing a {what} decryption still succeeds")));
        }
        // without a pinned hash the AEAD must still refuse a changed ciphertext / key / nonce
        if t % 4 != 3 && decrypt_group_image(&e2, None, &Secret::new(key), &Secret::new(nonce)).is_ok() {
            return Err(Failure::new("tampered-input-decrypted", format!("group image without hash: after changing a {what} decryption still succeeds")));
        }
    }
    rep.nontrivial = true;
    Ok(())
}

pub fn exec(case: &Case, mode: Mode) -> Result<CaseReport, Failure> {
    let mut rep = CaseReport::default();
    match case {
        Case::Shared { setup, before, file, sender, between, tamper } => shared(setup, before, file, *sender, between, tamper, mode, &mut rep)?,
        Case::GroupImage { w, h, seed, tamper, v1 } => group_image(*w, *h, *seed, tamper, *v1, &mut rep)?,
        Case::GroupImageInGroup { admin_sql, member_sql, with_initial, replacements, restart } => group_image_in_group(*admin_sql, *member_sql, *with_initial, *replacements, *restart, &mut rep)?,
    }
    Ok(rep)
}

pub fn main(args: &Args) -> i32 {
    let (cases, blen) = match args.tier {
        Tier::Quick => (700, 0..14),
        Tier::Thorough => (16 * 3500, 0..30),
    };
    let opts = SetupOpts {
        min_members: 2,
        max_members: 5,
        sql_percent: 20,
        spares: 2,
        regimes: vec![Regime::Causal, Regime::Unrestricted],
        retention: 2..=5,
        with_reference: false,
        ..SetupOpts::default()
    };
    let weights = Weights { msg: 2, self_update: 6, data: 5, add: 3, remove: 2, leave: 1, deliver: 12, catch_up: 5, immediate: 0, ..Weights::default() };
    let spec = Spec {
        id: "C17",
        level: "exploration",
        rule: "(1) a member encrypts a generated file (PNG / JPEG made with the image crate so sniffing passes, PDF, text, audio, video, octet-stream; 0 B .. 200 KB in quick, more in thorough; file names with spaces and unicode; MIME spellings with case, parameters and blanks), announces it in a message carrying the imeta tag, then 0..n further operations happen (commits incl. races, adds, removals, deliveries in any order) and everything is offered to everyone. Every client then decrypts from the tag it stored (or from the public reference): members of the sending epoch that hold the announcement - also those removed since - get exactly the sender's plaintext (whose SHA-256 is the published hash), everybody else an error. At the sender a sample of single-bit changes of ciphertext and nonce and changes of file name, MIME type, hash and scheme version must all fail; keys for tuples differing in hash, MIME type or file name (also names differing only in ASCII case or surrounding blanks) differ. (2) group images: prepare_group_image_for_upload (v2) decrypts with the published seed and nonce to the same pixels, single-bit changes of ciphertext / seed / nonce / hash fail (with and without the pinned hash); hand-built v1 blobs decrypt through the fallback and not with another key; (3) in a real two-member group (memory / SQLite) the image is set at creation or not and replaced one to three times through update_group_data: after every step, and after a restart, both members decrypt the current blob with the hash, seed and nonce their stored group record publishes. Non-trivial = a decryption at another epoch than the sending one, a listed excuse, or a tamper attempt; distinct = distinct cases".into(),
        assumptions: vec![
            "the expected plaintext is what the sender itself decrypts right after encrypting (images are sanitised by the library), cross-checked against the published hash".into(),
            "payload sizes are bounded (quick 200 KB, thorough 2 MB) to keep the case rate up".into(),
        ],
        min_nontrivial: 20,
        max_shrink_iters: 300,
        exhaustive: false,
    };
    let max_size: u32 = if args.tier == Tier::Quick { 200_000 } else { 2_000_000 };
    drive(
        args,
        spec,
        RunPlan { cases, workers: 16 },
        || {
            let file = (0u8..7, prop_oneof![3 => 0u32..2000, 1 => 0u32..max_size, 1 => Just(0u32)], prop_oneof![3 => "[a-zA-Z0-9 _.\\-]{1,30}", 1 => "[a-z \\u{e9}\\u{1F600}]{1,20}\\.bin"], 0u8..4)
                .prop_map(|(mime, size, filename, mime_spelling)| FileSpec { mime, size, filename, mime_spelling });
            prop_oneof![
                5 => (setup_strategy(&opts), prop::collection::vec(op_strategy(&weights), 0..10), file, any::<u16>(), prop::collection::vec(op_strategy(&weights), blen.clone()), prop::collection::vec(any::<u16>(), 0..10))
                    .prop_map(|(setup, before, file, sender, between, tamper)| Case::Shared { setup, before, file, sender, between, tamper }),
                1 => (any::<u8>(), any::<u8>(), any::<u8>(), prop::collection::vec(any::<u16>(), 0..12), prop::bool::weighted(0.3))
                    .prop_map(|(w, h, seed, tamper, v1)| Case::GroupImage { w, h, seed, tamper, v1 }),
                1 => (any::<bool>(), any::<bool>(), any::<bool>(), 1u8..4, any::<bool>())
                    .prop_map(|(admin_sql, member_sql, with_initial, replacements, restart)| Case::GroupImageInGroup { admin_sql, member_sql, with_initial, replacements, restart }),
            ]
        },
        exec,
    )
}
