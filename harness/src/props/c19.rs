//! C19 — storage backends are safe to share between threads (randomised stress against a
//! sequential specification).

use std::collections::{BTreeMap, BTreeSet};
use std::sync::atomic::{AtomicBool, AtomicU64, Ordering};
use std::sync::{Arc, Barrier};

use mdk_memory_storage::MdkMemoryStorage;
use mdk_sqlite_storage::MdkSqliteStorage;
use mdk_storage_traits::groups::types::{Group, GroupExporterSecret, GroupState, SelfUpdateState};
use mdk_storage_traits::groups::GroupStorage;
use mdk_storage_traits::messages::MessageStorage;
use mdk_storage_traits::{GroupId, MdkStorageProvider, Secret};
use nostr::RelayUrl;
use proptest::prelude::*;
use serde::{Deserialize, Serialize};

use crate::runner::{Args, CaseReport, Failure, Mode, RunPlan, Spec, Tier, drive};
use crate::storemodel as sm;
use crate::world::scratch_dir;

/// (root of /verif, tier name, seed) for the one verdict that cannot go through the runner: a
/// proven deadlock leaves threads that can never be joined, so the process has to end there
static RUN_CTX: std::sync::OnceLock<(std::path::PathBuf, String, u64)> = std::sync::OnceLock::new();

/// (state, utime + stime) of a thread of this process, from /proc
fn thread_stat(tid: i32) -> Option<(char, u64)> {
    let txt = std::fs::read_to_string(format!("/proc/self/task/{tid}/stat")).ok()?;
    let rest = &txt[txt.rfind(')')? + 2..];
    let f: Vec<&str> = rest.split_whitespace().collect();
    let state = f.first()?.chars().next()?;
    let utime: u64 = f.get(11)?.parse().ok()?;
    let stime: u64 = f.get(12)?.parse().ok()?;
    Some((state, utime + stime))
}

/// Sound deadlock verdict: every unfinished stress thread is parked (state S) and has not used
/// a single clock tick of CPU over `samples` observations 200 ms apart. A slow machine shows
/// runnable threads or growing CPU time instead; SQLite's lock retries time out long before.
fn all_parked(tids: &[i32], samples: usize) -> bool {
    let first: Vec<Option<(char, u64)>> = tids.iter().map(|t| thread_stat(*t)).collect();
    if first.iter().any(|s| !matches!(s, Some(('S', _)))) {
        return false;
    }
    for _ in 0..samples {
        std::thread::sleep(std::time::Duration::from_millis(200));
        for (t, f) in tids.iter().zip(first.iter()) {
            match (thread_stat(*t), f) {
                (Some(('S', cpu)), Some((_, cpu0))) if cpu == *cpu0 => {}
                _ => return false,
            }
        }
    }
    true
}

/// tells the watchdog that a thread is through, also when it unwinds
struct SendOnDrop(std::sync::mpsc::Sender<()>);
impl Drop for SendOnDrop {
    fn drop(&mut self) {
        let _ = self.0.send(());
    }
}

fn report_deadlock(case: &Case, detail: &str) -> ! {
    use std::hash::{Hash, Hasher};
    let (root, tier, seed) = RUN_CTX.get().cloned().unwrap_or((std::path::PathBuf::from("/verif"), "quick".into(), 0));
    let mut h = std::collections::hash_map::DefaultHasher::new();
    case.hash(&mut h);
    let dir = root.join("replays").join("C19");
    let _ = std::fs::create_dir_all(&dir);
    let path = dir.join(format!("{tier}-seed{seed}-deadlock-{:016x}.json", h.finish()));
    let v = serde_json::json!({"property": "C19", "clause": "deadlock", "detail": detail, "case": case, "tier": tier, "seed": seed});
    let _ = std::fs::write(&path, serde_json::to_string_pretty(&v).unwrap_or_default());
    println!("violated clause: deadlock — {detail}");
    println!("VIOLATION property=C19 replay={}", path.display());
    std::process::exit(1);
}

#[derive(Clone, Debug, PartialEq, Eq, Hash, Serialize, Deserialize)]
pub struct Case {
    pub sqlite: bool,
    pub groups: u8,
    pub writers_cycles: u16,
    pub readers: u8,
    pub snapshotters: u8,
    /// per-thread yield pattern at SQLite storage ticks (0 = none)
    pub yields: Vec<u8>,
    pub relay_set_size: u8,
    /// threads that race to save *different* new groups under one and the same Nostr group id
    /// (0 or 1 = none): in any sequential order exactly one of them succeeds
    #[serde(default)]
    pub claimers: u8,
    /// threads that open one and the same fresh database path at once (0 or 1 = none); the low
    /// bits of `writers_cycles` pick the constructor
    #[serde(default)]
    pub first_opens: u8,
    /// threads that race on one snapshot of one group (0 or 1 = none): rollbacks against each
    /// other, a rollback against re-takes under the same name, a rollback against a release
    #[serde(default)]
    pub consumers: u8,
}

fn gid(g: u8) -> GroupId {
    GroupId::from_slice(&[0xC0 + g, 9, 9, 9])
}

fn record(g: u8, v: u64) -> Group {
    // every field carries the version, so a torn record is visible
    Group {
        mls_group_id: gid(g),
        nostr_group_id: [g + 1; 32],
        name: format!("g{g}-v{v}"),
        description: format!("g{g}-v{v}"),
        image_hash: None,
        image_key: None,
        image_nonce: None,
        admin_pubkeys: Default::default(),
        last_message_id: None,
        last_message_at: Some(nostr::Timestamp::from_secs(v)),
        last_message_processed_at: Some(nostr::Timestamp::from_secs(v)),
        epoch: v,
        state: GroupState::Active,
        self_update_state: SelfUpdateState::CompletedAt(nostr::Timestamp::from_secs(v + 1)),
    }
}

fn record_version(r: &Group, g: u8) -> Result<u64, String> {
    let v = r.epoch;
    let want = format!("g{g}-v{v}");
    if r.name != want
        || r.description != want
        || r.last_message_at != Some(nostr::Timestamp::from_secs(v))
        || r.last_message_processed_at != Some(nostr::Timestamp::from_secs(v))
        || r.self_update_state != SelfUpdateState::CompletedAt(nostr::Timestamp::from_secs(v + 1))
    {
        return Err(format!("torn group record: epoch {v}, name {:?}, description {:?}, last_message_at {:?}", r.name, r.description, r.last_message_at));
    }
    Ok(v)
}

fn relay_set(g: u8, v: u64, n: u8) -> BTreeSet<RelayUrl> {
    (0..n.max(1)).map(|i| RelayUrl::parse(&format!("wss://g{g}-v{v}-r{i}.example.org")).unwrap()).collect()
}

fn relays_version(set: &BTreeSet<mdk_storage_traits::groups::types::GroupRelay>, g: u8, n: u8) -> Result<Option<u64>, String> {
    if set.is_empty() {
        return Ok(None);
    }
    let mut versions = BTreeSet::new();
    for r in set {
        let s = r.relay_url.to_string();
        let v = s.split("-v").nth(1).and_then(|x| x.split('-').next()).and_then(|x| x.parse::<u64>().ok());
        match v {
            Some(v) => {
                versions.insert(v);
            }
            None => return Err(format!("unknown relay {s}")),
        }
        if !s.contains(&format!("//g{g}-")) {
            return Err(format!("relay {s} of another group listed for group {g}"));
        }
    }
    if versions.len() != 1 || set.len() != n.max(1) as usize {
        return Err(format!("half-applied relay replacement: versions {versions:?}, {} of {} entries", set.len(), n.max(1)));
    }
    Ok(versions.into_iter().next())
}

fn secret_of(g: u8, v: u64) -> GroupExporterSecret {
    let mut s = [0u8; 32];
    s[..8].copy_from_slice(&v.to_be_bytes());
    s[8..16].copy_from_slice(&v.to_be_bytes());
    s[31] = g;
    GroupExporterSecret { mls_group_id: gid(g), epoch: 0, secret: Secret::new(s) }
}

fn secret_version(s: &GroupExporterSecret) -> Result<u64, String> {
    let mut a = [0u8; 8];
    a.copy_from_slice(&s.secret.as_ref()[..8]);
    let mut b = [0u8; 8];
    b.copy_from_slice(&s.secret.as_ref()[8..16]);
    if a != b {
        return Err("torn exporter secret".into());
    }
    Ok(u64::from_be_bytes(a))
}

fn stress<S: MdkStorageProvider + Sync>(st: &S, case: &Case, rep: &mut CaseReport) -> Result<(), Failure> {
    let groups = case.groups.clamp(1, 4);
    let n_rel = case.relay_set_size.clamp(1, 5);
    for g in 0..groups {
        st.save_group(record(g, 0)).map_err(|e| Failure::new("setup-failed", e.to_string()))?;
        st.replace_group_relays(&gid(g), relay_set(g, 0, n_rel)).map_err(|e| Failure::new("setup-failed", e.to_string()))?;
        st.save_group_exporter_secret(secret_of(g, 0)).map_err(|e| Failure::new("setup-failed", e.to_string()))?;
    }
    let cycles = case.writers_cycles.clamp(20, 3000) as u64;
    let readers = case.readers.min(8) as usize;
    let snappers = case.snapshotters.min(4) as usize;
    let n_threads = groups as usize + readers + snappers;
    let barrier = Arc::new(Barrier::new(n_threads));
    let done = Arc::new(AtomicBool::new(false));
    let finished_writers = Arc::new(AtomicU64::new(0));
    let problems: Arc<std::sync::Mutex<Vec<(String, String)>>> = Arc::new(std::sync::Mutex::new(vec![]));
    let snap_names: Arc<std::sync::Mutex<Vec<(u8, String)>>> = Arc::new(std::sync::Mutex::new(vec![]));
    let reads = Arc::new(AtomicU64::new(0));
    let yields = case.yields.clone();
    let finished = Arc::new(AtomicU64::new(0));
    let progress = Arc::new(AtomicU64::new(0));
    let tids: Arc<std::sync::Mutex<Vec<(usize, i32)>>> = Arc::new(std::sync::Mutex::new(vec![]));
    let finished_flags: Arc<Vec<AtomicBool>> = Arc::new((0..n_threads).map(|_| AtomicBool::new(false)).collect());
    let (tx, rx) = std::sync::mpsc::channel::<()>();
    let panicked = std::thread::scope(|s| {
        let mut handles = vec![];
        for t in 0..n_threads {
            let barrier = barrier.clone();
            let done = done.clone();
            let problems = problems.clone();
            let snap_names = snap_names.clone();
            let finished_writers = finished_writers.clone();
            let reads = reads.clone();
            let ypat = yields.get(t % yields.len().max(1)).copied().unwrap_or(0);
            let finished = finished.clone();
            let tx = tx.clone();
            let progress = progress.clone();
            let tids = tids.clone();
            let finished_flags = finished_flags.clone();
            handles.push(s.spawn(move || {
                tids.lock().unwrap().push((t, unsafe { libc::syscall(libc::SYS_gettid) } as i32));
                if ypat > 0 {
                    // yield points at SQLite storage ticks
                    let c = std::cell::Cell::new(0u32);
                    mdk_sqlite_storage::verif::set_tick_handler(Some(std::rc::Rc::new(move |_l: &'static str| {
                        c.set(c.get() + 1);
                        if c.get() % (ypat as u32) == 0 {
                            std::thread::yield_now();
                        }
                    })));
                }
                let report = |clause: &str, d: String| problems.lock().unwrap().push((clause.to_string(), d));
                barrier.wait();
                if t < groups as usize {
                    // ---- the single writer of group t: record, relays, secret, message - in this order
                    let g = t as u8;
                    for v in 1..=cycles {
                        progress.fetch_add(1, Ordering::Relaxed);
                        if st.save_group(record(g, v)).is_err() {
                            report("write-failed", format!("save_group g{g} v{v}"));
                        }
                        if st.replace_group_relays(&gid(g), relay_set(g, v, n_rel)).is_err() {
                            report("write-failed", format!("replace_group_relays g{g} v{v}"));
                        }
                        if st.save_group_exporter_secret(secret_of(g, v)).is_err() {
                            report("write-failed", format!("save_group_exporter_secret g{g} v{v}"));
                        }
                        if v % 8 == 0 {
                            let m = sm_message(g, (v % 5) as u8, v);
                            if st.save_message(m).is_err() {
                                report("write-failed", format!("save_message g{g} v{v}"));
                            }
                        }
                    }
                    if finished_writers.fetch_add(1, Ordering::SeqCst) + 1 == groups as u64 {
                        done.store(true, Ordering::SeqCst);
                    }
                } else if t < groups as usize + readers {
                    // ---- readers: everything read must be whole, and never go backwards
                    let mut last: BTreeMap<(u8, &'static str), u64> = BTreeMap::new();
                    let mut i = t;
                    while !done.load(Ordering::SeqCst) {
                        let g = (i % groups as usize) as u8;
                        i += 1;
                        progress.fetch_add(1, Ordering::Relaxed);
                        let mut seen = |what: &'static str, v: u64| {
                            let e = last.entry((g, what)).or_insert(0);
                            if v < *e {
                                report("value-went-backwards", format!("group {g} {what}: version {v} read after version {}", *e));
                            }
                            *e = (*e).max(v);
                        };
                        match st.find_group_by_mls_group_id(&gid(g)) {
                            Ok(Some(r)) => match record_version(&r, g) {
                                Ok(v) => seen("record", v),
                                Err(e) => report("torn-value", format!("group {g}: {e}")),
                            },
                            Ok(None) => report("value-disappeared", format!("group {g} record missing")),
                            Err(e) => report("read-failed", format!("find_group g{g}: {e}")),
                        }
                        match st.find_group_by_nostr_group_id(&[g + 1; 32]) {
                            Ok(Some(r)) => match record_version(&r, g) {
                                Ok(v) => seen("record-by-nostr-id", v),
                                Err(e) => report("torn-value", format!("group {g} (by nostr id): {e}")),
                            },
                            Ok(None) => report("value-disappeared", format!("group {g} missing in the by-nostr-id lookup")),
                            Err(e) => report("read-failed", format!("find_group_by_nostr g{g}: {e}")),
                        }
                        match st.group_relays(&gid(g)) {
                            Ok(set) => match relays_version(&set, g, n_rel) {
                                Ok(Some(v)) => seen("relays", v),
                                Ok(None) => report("half-applied-replace", format!("group {g}: empty relay listing")),
                                Err(e) => report("half-applied-replace", format!("group {g}: {e}")),
                            },
                            Err(e) => report("read-failed", format!("group_relays g{g}: {e}")),
                        }
                        match st.get_group_exporter_secret(&gid(g), 0) {
                            Ok(Some(s)) => match secret_version(&s) {
                                Ok(v) => seen("secret", v),
                                Err(e) => report("torn-value", format!("group {g}: {e}")),
                            },
                            Ok(None) => report("value-disappeared", format!("group {g} secret missing")),
                            Err(e) => report("read-failed", format!("get_secret g{g}: {e}")),
                        }
                        if let Ok(ms) = st.messages(&gid(g), None) {
                            let mut ids = BTreeSet::new();
                            for m in &ms {
                                if !ids.insert(m.id) {
                                    report("duplicate-message", format!("group {g}"));
                                }
                                if m.mls_group_id != gid(g) {
                                    report("cross-group-leak", format!("message of another group listed for {g}"));
                                }
                            }
                        }
                        reads.fetch_add(1, Ordering::Relaxed);
                    }
                } else {
                    // ---- snapshotters: snapshots taken while the writers write
                    let mut k = 0;
                    while !done.load(Ordering::SeqCst) && k < 40 {
                        let g = ((t + k) % groups as usize) as u8;
                        let name = format!("t{t}-k{k}");
                        progress.fetch_add(1, Ordering::Relaxed);
                        if st.create_group_snapshot(&gid(g), &name).is_ok() {
                            snap_names.lock().unwrap().push((g, name));
                        } else {
                            report("snapshot-failed", format!("group {g}"));
                        }
                        k += 1;
                        std::thread::yield_now();
                    }
                }
                mdk_sqlite_storage::verif::set_tick_handler(None);
                finished.fetch_add(1, Ordering::SeqCst);
                finished_flags[t].store(true, Ordering::SeqCst);
                let _ = tx.send(());
            }));
        }
        drop(tx);
        // watchdog. "Nothing deadlocks" is part of the property, so a *proven* deadlock (no
        // progress for 20 s while every unfinished thread is parked and burns no CPU at all) is a
        // violation; any other hang (slow machine, livelock, unknown) is exit 2, inconclusive.
        let started = std::time::Instant::now();
        let mut got = 0;
        let mut last_progress = (progress.load(Ordering::Relaxed), std::time::Instant::now());
        while got < n_threads {
            match rx.recv_timeout(std::time::Duration::from_secs(1)) {
                Ok(()) => {
                    got += 1;
                    last_progress.1 = std::time::Instant::now();
                }
                Err(std::sync::mpsc::RecvTimeoutError::Timeout) => {
                    let p = progress.load(Ordering::Relaxed);
                    if p != last_progress.0 {
                        last_progress = (p, std::time::Instant::now());
                    }
                    if last_progress.1.elapsed().as_secs() >= 20 {
                        let stuck: Vec<(usize, i32)> =
                            tids.lock().unwrap().iter().filter(|(t, _)| !finished_flags[*t].load(Ordering::SeqCst)).cloned().collect();
                        let ids: Vec<i32> = stuck.iter().map(|(_, tid)| *tid).collect();
                        if !ids.is_empty() && all_parked(&ids, 15) && progress.load(Ordering::Relaxed) == last_progress.0 {
                            let role = |t: usize| if t < groups as usize { "writer" } else if t < groups as usize + readers { "reader" } else { "snapshotter" };
                            let who = stuck.iter().map(|(t, _)| format!("{}#{t}", role(*t))).collect::<Vec<_>>().join(", ");
                            report_deadlock(
                                case,
                                &format!(
                                    "{} of {n_threads} threads sharing one {} storage instance made no progress for {} s, all of them parked without using any CPU: {who}; case {case:?}",
                                    stuck.len(),
                                    if case.sqlite { "SQLite" } else { "memory" },
                                    last_progress.1.elapsed().as_secs()
                                ),
                            );
                        }
                    }
                    if started.elapsed().as_secs() >= 150 {
                        println!("inconclusive: watchdog - {} of {n_threads} threads still running after 150 s (not a proven deadlock: threads runnable or using CPU) in case {case:?}", n_threads - got);
                        std::process::exit(2);
                    }
                }
                Err(_) => break, // a thread died without reporting: its join below tells
            }
        }
        handles.into_iter().any(|h| h.join().is_err())
    });
    if panicked {
        return Err(Failure::new("panic", "a storage call panicked under concurrent use".to_string()));
    }
    if let Some((clause, d)) = problems.lock().unwrap().first().cloned() {
        return Err(Failure::new(&clause, d));
    }
    // ---- quiet phase: every snapshot, rolled back to, is the group's state at one instant
    let names = snap_names.lock().unwrap().clone();
    let final_other: BTreeMap<u8, u64> = (0..groups).map(|g| (g, st.find_group_by_mls_group_id(&gid(g)).ok().flatten().map(|r| r.epoch).unwrap_or(0))).collect();
    for (g, name) in &names {
        st.rollback_group_to_snapshot(&gid(*g), name).map_err(|e| Failure::new("rollback-failed", format!("{name}: {e}")))?;
        let r = st.find_group_by_mls_group_id(&gid(*g)).ok().flatten().ok_or_else(|| Failure::new("value-disappeared", format!("group {g} after rollback")))?;
        let vr = record_version(&r, *g).map_err(|e| Failure::new("torn-value", format!("snapshot {name}: {e}")))?;
        let vl = relays_version(&st.group_relays(&gid(*g)).map_err(|e| Failure::new("read-failed", e.to_string()))?, *g, n_rel)
            .map_err(|e| Failure::new("snapshot-is-not-one-instant", format!("snapshot {name}: {e}")))?
            .unwrap_or(0);
        let vs = st.get_group_exporter_secret(&gid(*g), 0).ok().flatten().map(|s| secret_version(&s)).transpose().map_err(|e| Failure::new("torn-value", e))?.unwrap_or(0);
        // writer order per cycle: record(v), relays(v), secret(v)
        if !(vr >= vl && vl >= vs && vs + 1 >= vr) {
            return Err(Failure::new(
                "snapshot-is-not-one-instant",
                format!("snapshot {name} of group {g}: record v{vr}, relays v{vl}, secret v{vs} - the writer writes record, relays, secret in this order, so no instant has these three"),
            ));
        }
        // other groups untouched by the rollback
        for og in 0..groups {
            if og != *g {
                let v = st.find_group_by_mls_group_id(&gid(og)).ok().flatten().map(|r| r.epoch).unwrap_or(0);
                if v != final_other[&og] && !names.iter().any(|(x, _)| *x == og) {
                    return Err(Failure::new("rollback-disturbed-another-group", format!("group {og} changed when group {g} was rolled back")));
                }
            }
        }
        *rep.counters.entry("snapshots-taken-under-load-and-verified".into()).or_insert(0) += 1;
    }
    *rep.counters.entry("reader-iterations".into()).or_insert(0) += reads.load(Ordering::Relaxed);
    *rep.counters.entry("writer-cycles".into()).or_insert(0) += cycles * groups as u64;
    rep.classes.push(format!("threads-{}", n_threads.min(16)));
    rep.classes.push(if case.sqlite { "sqlite".into() } else { "memory".into() });
    rep.nontrivial = n_threads >= 2 && reads.load(Ordering::Relaxed) > 0;
    Ok(())
}

/// K threads, released together round after round, each saving a different new group that claims
/// the round's Nostr group id. Both backends document that an id belongs to at most one group.
fn claim_phase<S: MdkStorageProvider + Sync>(st: &S, case: &Case, rep: &mut CaseReport) -> Result<(), Failure> {
    let k = case.claimers.min(6) as usize;
    if k < 2 {
        return Ok(());
    }
    let rounds: usize = if case.sqlite { 40 } else { 120 };
    let barrier = Arc::new(Barrier::new(k));
    let oks: Arc<Vec<AtomicU64>> = Arc::new((0..rounds).map(|_| AtomicU64::new(0)).collect());
    let (tx, rx) = std::sync::mpsc::channel::<()>();
    let claim = |round: usize, t: usize| -> Group {
        let mut r = record(0, 1);
        r.mls_group_id = GroupId::from_slice(&[0xD0, (round >> 8) as u8, round as u8, t as u8]);
        let mut n = [0xEEu8; 32];
        n[1] = (round >> 8) as u8;
        n[2] = round as u8;
        r.nostr_group_id = n;
        r.name = format!("claim-{round}-{t}");
        r
    };
    let panicked = std::thread::scope(|s| {
        let mut hs = vec![];
        for t in 0..k {
            let barrier = barrier.clone();
            let oks = oks.clone();
            let tx = tx.clone();
            hs.push(s.spawn(move || {
                for round in 0..rounds {
                    barrier.wait();
                    if st.save_group(claim(round, t)).is_ok() {
                        oks[round].fetch_add(1, Ordering::SeqCst);
                    }
                }
                let _ = tx.send(());
            }));
        }
        drop(tx);
        let mut got = 0;
        while got < k {
            match rx.recv_timeout(std::time::Duration::from_secs(120)) {
                Ok(()) => got += 1,
                Err(std::sync::mpsc::RecvTimeoutError::Timeout) => {
                    println!("inconclusive: watchdog - the claim phase did not finish within 120 s in case {case:?}");
                    std::process::exit(2);
                }
                Err(_) => break,
            }
        }
        hs.into_iter().any(|h| h.join().is_err())
    });
    if panicked {
        return Err(Failure::new("panic", "save_group panicked under concurrent use".to_string()));
    }
    for round in 0..rounds {
        let n = oks[round].load(Ordering::SeqCst);
        if n != 1 {
            return Err(Failure::new(
                "conflicting-writes-both-accepted",
                format!("{k} threads each saved a different new group under the same Nostr group id (round {round}): {n} of the calls returned Ok; every sequential order of these calls lets exactly one succeed"),
            ));
        }
        let mut nid = [0xEEu8; 32];
        nid[1] = (round >> 8) as u8;
        nid[2] = round as u8;
        let owners = st.all_groups().map_err(|e| Failure::new("read-failed", e.to_string()))?.into_iter().filter(|g| g.nostr_group_id == nid).count();
        if owners != 1 {
            return Err(Failure::new("conflicting-writes-both-accepted", format!("after the race {owners} groups carry the Nostr group id of round {round}")));
        }
    }
    *rep.counters.entry("nostr-id-claim-races".into()).or_insert(0) += rounds as u64;
    rep.classes.push(format!("claimers-{k}"));
    Ok(())
}

/// K threads, released together, work on one and the same snapshot of one group. Every
/// sequential order of the calls of a round leaves one of a few outcomes; anything else means a
/// call was not atomic (a snapshot consumed twice, a re-taken snapshot deleted by a rollback that
/// had started earlier, a snapshot holding a state the group never had together with ...).
fn consume_phase<S: MdkStorageProvider + Sync>(st: &S, case: &Case, rep: &mut CaseReport) -> Result<(), Failure> {
    let k = case.consumers.min(6) as usize;
    if k < 2 {
        return Ok(());
    }
    const G: u8 = 5; // a group of its own
    let rounds: usize = if case.sqlite { 45 } else { 150 };
    let name = "consume";
    let read_v = |what: &str| -> Result<u64, Failure> {
        let r = st
            .find_group_by_mls_group_id(&gid(G))
            .map_err(|e| Failure::new("read-failed", e.to_string()))?
            .ok_or_else(|| Failure::new("lost-update", format!("{what}: the group record is gone")))?;
        record_version(&r, G).map_err(|e| Failure::new("torn-read", format!("{what}: {e}")))
    };
    let listed = || -> Result<bool, Failure> {
        Ok(st.list_group_snapshots(&gid(G)).map_err(|e| Failure::new("read-failed", e.to_string()))?.iter().any(|(n, _)| n == name))
    };
    for round in 0..rounds {
        let mode = round % 3;
        let v1 = 10 + 2 * round as u64;
        let v2 = v1 + 1;
        // (sequential calls between the races: by the sequential specification they succeed; a
        // failure here is what an earlier race left behind)
        let after_race = |what: &str, e: String| Failure::new(if round == 0 { "setup-failed" } else { "call-failed-after-snapshot-race" }, format!("round {round}: {what} on a quiet storage, after the snapshot races of the earlier rounds, answers: {e}"));
        st.save_group(record(G, v1)).map_err(|e| after_race("save_group", e.to_string()))?;
        st.create_group_snapshot(&gid(G), name).map_err(|e| after_race("create_group_snapshot", e.to_string()))?;
        st.save_group(record(G, v2)).map_err(|e| after_race("save_group", e.to_string()))?;
        // ... and another group is not disturbed either
        if round > 0 && round % 10 == 0 {
            st.save_group(record(0, 1_000_000 + round as u64)).map_err(|e| after_race("save_group of another group", e.to_string()))?;
            st.create_group_snapshot(&gid(0), "other").map_err(|e| after_race("create_group_snapshot of another group", e.to_string()))?;
            st.rollback_group_to_snapshot(&gid(0), "other").map_err(|e| after_race("rollback of another group", e.to_string()))?;
        }
        let barrier = Barrier::new(k);
        // thread 0 always rolls back; the others: mode 0 roll back too, mode 1 re-take, mode 2 release
        let tids: std::sync::Mutex<Vec<i32>> = std::sync::Mutex::new(vec![]);
        let (tx, rx) = std::sync::mpsc::channel::<()>();
        let results: Vec<Option<Result<(), String>>> = std::thread::scope(|s| {
            let hs: Vec<_> = (0..k)
                .map(|t| {
                    let barrier = &barrier;
                    let tids = &tids;
                    let tx = tx.clone();
                    s.spawn(move || {
                        tids.lock().unwrap().push(unsafe { libc::syscall(libc::SYS_gettid) } as i32);
                        let _done = SendOnDrop(tx);
                        barrier.wait();
                        let r = if t == 0 || mode == 0 {
                            st.rollback_group_to_snapshot(&gid(G), name)
                        } else if mode == 1 {
                            st.create_group_snapshot(&gid(G), name)
                        } else {
                            st.release_group_snapshot(&gid(G), name)
                        };
                        r.map_err(|e| e.to_string())
                    })
                })
                .collect();
            drop(tx);
            // these calls take microseconds; threads that never come back are either deadlocked
            // (all parked, no CPU use: a violation) or the machine is stuck (inconclusive)
            let mut got = 0;
            let mut waited = 0;
            while got < k {
                match rx.recv_timeout(std::time::Duration::from_secs(10)) {
                    Ok(()) => got += 1,
                    Err(std::sync::mpsc::RecvTimeoutError::Timeout) => {
                        waited += 10;
                        let unfinished: Vec<i32> = {
                            let all = tids.lock().unwrap().clone();
                            all.into_iter().filter(|t| thread_stat(*t).is_some()).collect()
                        };
                        if !unfinished.is_empty() && unfinished.len() == k - got && all_parked(&unfinished, 15) {
                            report_deadlock(
                                case,
                                &format!(
                                    "round {round} of the snapshot race: {k} threads released together (thread 0 rolls back to snapshot `{name}`, the others {}); {} of them never returned: all parked, no CPU use for 3 s after {waited} s of waiting",
                                    ["roll back to it too", "re-take it under the same name", "release it"][mode],
                                    k - got
                                ),
                            );
                        }
                        if waited >= 120 {
                            println!("inconclusive: watchdog - the snapshot race did not finish within 120 s in case {case:?}");
                            std::process::exit(2);
                        }
                    }
                    Err(_) => break,
                }
            }
            hs.into_iter().map(|h| h.join().ok()).collect()
        });
        if results.iter().any(|r| r.is_none()) {
            return Err(Failure::new("panic", format!("a snapshot call panicked under concurrent use (round {round})")));
        }
        let results: Vec<Result<(), String>> = results.into_iter().map(|r| r.unwrap()).collect();
        let live = read_v("after the snapshot race")?;
        let is_listed = listed()?;
        let ctx = format!(
            "round {round}: snapshot `{name}` taken at record version {v1}, record then saved at version {v2}; {k} threads released together: thread 0 rolls back to it, the other {} {}; results {:?}; afterwards the record is at version {live} and the snapshot is {}",
            k - 1,
            ["roll back to it too", "re-take it under the same name", "release it"][mode],
            results,
            if is_listed { "listed" } else { "not listed" }
        );
        match mode {
            0 => {
                let oks = results.iter().filter(|r| r.is_ok()).count();
                if oks != 1 || live != v1 || is_listed {
                    return Err(Failure::new("snapshot-consumed-more-than-once", format!("{ctx}; every sequential order lets exactly one rollback succeed (the snapshot exists once), leaves version {v1} and no snapshot")));
                }
            }
            1 => {
                // a = number of re-takes ordered before the rollback: a = 0 -> (v1, listed, holds v1);
                // 0 < a < k-1 -> (v2, listed, holds v2); a = k-1 -> (v2, not listed). All calls succeed.
                if let Some(e) = results.iter().find_map(|r| r.as_ref().err()) {
                    return Err(Failure::new("snapshot-race-not-sequential", format!("{ctx}; in every sequential order all calls succeed, one answered {e}")));
                }
                let ok = match (live, is_listed) {
                    (l, true) if l == v1 => true,
                    (l, true) if l == v2 => k - 1 >= 2,
                    (l, false) if l == v2 => true,
                    _ => false,
                };
                if !ok {
                    return Err(Failure::new("snapshot-race-not-sequential", format!("{ctx}; sequential orders leave (version {v1}, listed), (version {v2}, not listed){}", if k > 2 { format!(" or (version {v2}, listed)") } else { String::new() })));
                }
                if is_listed {
                    // what the surviving snapshot holds: the state at the instant it was re-taken,
                    // which in every sequential order is the final state
                    st.save_group(record(G, 5)).map_err(|e| Failure::new("setup-failed", e.to_string()))?;
                    st.rollback_group_to_snapshot(&gid(G), name).map_err(|e| Failure::new("snapshot-race-not-sequential", format!("{ctx}; the listed snapshot cannot be rolled back to: {e}")))?;
                    let held = read_v("after rolling back to the surviving snapshot")?;
                    if held != live {
                        return Err(Failure::new("snapshot-race-not-sequential", format!("{ctx}; the surviving snapshot holds version {held}: in every sequential order a re-take that comes after the rollback copies the state the rollback left")));
                    }
                }
            }
            _ => {
                // rollback first: Ok, v1; a release first: NotFound, v2. Never listed.
                let r0 = &results[0];
                let ok = !is_listed && ((r0.is_ok() && live == v1) || (r0.is_err() && live == v2));
                if !ok || results[1..].iter().any(|r| r.is_err()) {
                    return Err(Failure::new("snapshot-race-not-sequential", format!("{ctx}; sequential orders leave (rollback Ok, version {v1}) or (rollback refused, version {v2}), the snapshot gone either way")));
                }
            }
        }
        if is_listed {
            let _ = st.release_group_snapshot(&gid(G), name);
        }
    }
    *rep.counters.entry("snapshot-consume-races".into()).or_insert(0) += rounds as u64;
    rep.classes.push(format!("consumers-{k}"));
    Ok(())
}

/// K threads, released together, each replace the relay set of one and the same group by a set of
/// their own (all sets share one relay). Whatever the order, every call succeeds and the group
/// ends with exactly the set of the call that came last - never a mixture of two.
fn replace_phase<S: MdkStorageProvider + Sync>(st: &S, case: &Case, rep: &mut CaseReport) -> Result<(), Failure> {
    let k = case.consumers.min(6) as usize;
    if k < 2 {
        return Ok(());
    }
    const G: u8 = 6;
    st.save_group(record(G, 1)).map_err(|e| Failure::new("setup-failed", e.to_string()))?;
    let rounds: usize = if case.sqlite { 60 } else { 150 };
    let set_of = |round: usize, t: usize| -> BTreeSet<RelayUrl> {
        ["shared".to_string(), format!("r{round}-t{t}-a"), format!("r{round}-t{t}-b")].iter().map(|n| RelayUrl::parse(&format!("wss://{n}.g{G}.example.org")).unwrap()).collect()
    };
    for round in 0..rounds {
        let barrier = Barrier::new(k);
        let tids: std::sync::Mutex<Vec<i32>> = std::sync::Mutex::new(vec![]);
        let (tx, rx) = std::sync::mpsc::channel::<()>();
        let results: Vec<Option<Result<(), String>>> = std::thread::scope(|s| {
            let hs: Vec<_> = (0..k)
                .map(|t| {
                    let barrier = &barrier;
                    let tids = &tids;
                    let tx = tx.clone();
                    let mine = set_of(round, t);
                    s.spawn(move || {
                        tids.lock().unwrap().push(unsafe { libc::syscall(libc::SYS_gettid) } as i32);
                        let _done = SendOnDrop(tx);
                        barrier.wait();
                        st.replace_group_relays(&gid(G), mine).map_err(|e| e.to_string())
                    })
                })
                .collect();
            drop(tx);
            let mut got = 0;
            let mut waited = 0;
            while got < k {
                match rx.recv_timeout(std::time::Duration::from_secs(10)) {
                    Ok(()) => got += 1,
                    Err(std::sync::mpsc::RecvTimeoutError::Timeout) => {
                        waited += 10;
                        let unfinished: Vec<i32> = tids.lock().unwrap().iter().copied().filter(|t| thread_stat(*t).is_some()).collect();
                        if !unfinished.is_empty() && unfinished.len() == k - got && all_parked(&unfinished, 15) {
                            report_deadlock(case, &format!("round {round} of the relay-replacement race: {} of {k} threads never returned from replace_group_relays: all parked, no CPU use for 3 s after {waited} s of waiting", k - got));
                        }
                        if waited >= 120 {
                            println!("inconclusive: watchdog - the relay-replacement race did not finish within 120 s in case {case:?}");
                            std::process::exit(2);
                        }
                    }
                    Err(_) => break,
                }
            }
            hs.into_iter().map(|h| h.join().ok()).collect()
        });
        if results.iter().any(|r| r.is_none()) {
            return Err(Failure::new("panic", format!("replace_group_relays panicked under concurrent use (round {round})")));
        }
        let now: BTreeSet<String> = st.group_relays(&gid(G)).map_err(|e| Failure::new("read-failed", e.to_string()))?.into_iter().map(|r| r.relay_url.to_string()).collect();
        let ctx = format!("round {round}: {k} threads released together each replace the relay set of one group by their own three relays (one relay in common); results {:?}; afterwards the group lists {now:?}", results.iter().map(|r| r.as_ref().unwrap().clone()).collect::<Vec<_>>());
        if let Some(Some(Err(e))) = results.iter().find(|r| matches!(r, Some(Err(_)))) {
            return Err(Failure::new("relay-replacement-race-not-sequential", format!("{ctx}; in every sequential order all calls succeed, one answered {e}")));
        }
        let is_one = (0..k).any(|t| set_of(round, t).iter().map(|u| u.to_string()).collect::<BTreeSet<_>>() == now);
        if !is_one {
            return Err(Failure::new("relay-replacement-race-not-sequential", format!("{ctx}; every sequential order leaves exactly the set of the call that came last")));
        }
    }
    *rep.counters.entry("relay-replacement-races".into()).or_insert(0) += rounds as u64;
    Ok(())
}

/// N threads open the same, not yet existing database path at the same moment. Any sequential
/// order of these calls lets every one of them succeed and see the same database.
fn first_open_phase(case: &Case, rep: &mut CaseReport) -> Result<(), Failure> {
    let n = case.first_opens.min(12) as usize;
    if n < 2 {
        return Ok(());
    }
    crate::world::ensure_mock_keyring();
    let dir = scratch_dir("c19o");
    let path = dir.0.join("nested").join("first-open.db");
    let ctor = case.writers_cycles % 3;
    let key = crate::world::key_for_path(&path);
    let id = format!("{}#c19", path.display());
    let barrier = Arc::new(Barrier::new(n));
    let (tx, rx) = std::sync::mpsc::channel::<()>();
    let results: Vec<Result<MdkSqliteStorage, String>> = std::thread::scope(|s| {
        let hs: Vec<_> = (0..n)
            .map(|_| {
                let b = barrier.clone();
                let path = path.clone();
                let id = id.clone();
                let tx = tx.clone();
                s.spawn(move || {
                    b.wait();
                    let r = std::panic::catch_unwind(|| {
                        match ctor {
                            0 => MdkSqliteStorage::new_unencrypted(&path),
                            1 => MdkSqliteStorage::new_with_key(&path, mdk_sqlite_storage::EncryptionConfig::new(key)),
                            _ => MdkSqliteStorage::new(&path, crate::world::KEYRING_SERVICE, &id),
                        }
                        .map_err(|e| e.to_string())
                    })
                    .unwrap_or_else(|_| Err("PANIC".to_string()));
                    let _ = tx.send(());
                    r
                })
            })
            .collect();
        drop(tx);
        let mut got = 0;
        while got < n {
            match rx.recv_timeout(std::time::Duration::from_secs(120)) {
                Ok(()) => got += 1,
                Err(std::sync::mpsc::RecvTimeoutError::Timeout) => {
                    println!("inconclusive: watchdog - concurrent first opens did not finish within 120 s in case {case:?}");
                    std::process::exit(2);
                }
                Err(_) => break,
            }
        }
        hs.into_iter().map(|h| h.join().unwrap_or_else(|_| Err("PANIC".into()))).collect()
    });
    let what = ["new_unencrypted", "new_with_key", "new (keyring)"][ctor as usize];
    if results.iter().any(|r| matches!(r, Err(e) if e == "PANIC")) {
        return Err(Failure::new("panic", format!("a concurrent first open ({what}) panicked")));
    }
    let errs: Vec<&String> = results.iter().filter_map(|r| r.as_ref().err()).collect();
    if !errs.is_empty() {
        let mut kinds: Vec<String> = errs.iter().map(|e| e.chars().take(90).collect()).collect();
        kinds.sort();
        kinds.dedup();
        return Err(Failure::new(
            "concurrent-first-open-failed",
            format!("{n} threads opened the same new database path at once with {what}: {} of them got an error ({}); one after the other every one of these calls succeeds", errs.len(), kinds.join(" | ")),
        ));
    }
    // all instances are the same database
    let oks: Vec<&MdkSqliteStorage> = results.iter().filter_map(|r| r.as_ref().ok()).collect();
    oks[0].save_group(record(0, 7)).map_err(|e| Failure::new("write-failed", format!("after concurrent first opens: {e}")))?;
    for (i, o) in oks.iter().enumerate() {
        match o.find_group_by_mls_group_id(&gid(0)) {
            Ok(Some(r)) if r.epoch == 7 => {}
            other => return Err(Failure::new("concurrent-instances-do-not-share-the-database", format!("instance {i} of {n} reads {:?}", other.map(|g| g.map(|g| g.epoch)).map_err(|e| e.to_string())))),
        }
    }
    *rep.counters.entry("concurrent-first-opens".into()).or_insert(0) += n as u64;
    rep.classes.push(format!("first-open-{what}"));
    Ok(())
}

fn sm_message(g: u8, m: u8, v: u64) -> mdk_storage_traits::messages::types::Message {
    let pk = sm::pk(0);
    let ts = nostr::Timestamp::from_secs(1000 + v);
    let mut ev = nostr::UnsignedEvent::new(pk, ts, nostr::Kind::Custom(9), vec![], format!("g{g}-v{v}"));
    ev.id = Some(sm::mid(m));
    mdk_storage_traits::messages::types::Message {
        id: sm::mid(m),
        pubkey: pk,
        kind: nostr::Kind::Custom(9),
        mls_group_id: gid(g),
        created_at: ts,
        processed_at: ts,
        content: format!("g{g}-v{v}"),
        tags: nostr::Tags::new(),
        event: ev,
        wrapper_event_id: sm::wid(m),
        epoch: Some(v),
        state: mdk_storage_traits::messages::types::MessageState::Processed,
    }
}

pub fn exec(case: &Case, _mode: Mode) -> Result<CaseReport, Failure> {
    let mut rep = CaseReport::default();
    first_open_phase(case, &mut rep)?;
    if case.sqlite {
        let dir = scratch_dir("c19");
        let st = MdkSqliteStorage::new_unencrypted(dir.0.join("t.db")).map_err(|e| Failure::new("setup-failed", e.to_string()))?;
        stress(&st, case, &mut rep)?;
        claim_phase(&st, case, &mut rep)?;
        consume_phase(&st, case, &mut rep)?;
        replace_phase(&st, case, &mut rep)?;
    } else {
        let st = MdkMemoryStorage::default();
        stress(&st, case, &mut rep)?;
        claim_phase(&st, case, &mut rep)?;
        consume_phase(&st, case, &mut rep)?;
        replace_phase(&st, case, &mut rep)?;
    }
    Ok(rep)
}

pub fn main(args: &Args) -> i32 {
    let _ = RUN_CTX.set((args.root.clone(), args.tier.name().to_string(), args.seed));
    let (cases, max_cycles) = match args.tier {
        Tier::Quick => (160, 600u16),
        Tier::Thorough => (16 * 150, 3000u16),
    };
    let spec = Spec {
        id: "C19",
        level: "exploration",
        rule: "randomised stress runs against a sequential specification: per group one writer thread repeats (save_group v, replace_group_relays v, save_group_exporter_secret v, every 8th cycle save_message) with the version embedded in every field and every relay URL; 0..8 reader threads check that every record / by-Nostr-id lookup / relay listing / secret is whole (one version, complete set), never goes backwards for a reader, that listings hold no duplicate or foreign message; 0..4 threads take snapshots of groups while they are written. Afterwards every snapshot is rolled back to and must show versions with record >= relays >= secret >= record-1 (the writer's program order: a state of one instant), other groups untouched. Then 2..6 threads, released together for 40..120 rounds, each save a different new group under one shared Nostr group id: exactly one call per round may succeed and exactly one group may own the id. Then 2..6 threads race on one snapshot of one group for 45..150 rounds (all roll back to it; one rolls back while the others re-take it under the same name; one rolls back while the others release it): results, record version, listing and the content of a surviving snapshot must be what some sequential order of the calls leaves; the same threads then each replace the relay set of one group by a set of their own for 60..150 rounds: every call succeeds and the group ends with exactly one caller's set. In a third of the cases 2..12 threads first open one and the same fresh database path at once (unencrypted / caller key / keyring constructor): every open must succeed and all instances must be the same database. Thread counts 2..16, both backends, per-thread yield patterns at SQLite storage ticks; a watchdog turns a proven deadlock (no progress for 20 s, every unfinished thread parked with zero CPU use) into a violation and any other hang into exit 2. Non-trivial = at least two threads and at least one concurrent read; distinct = distinct cases".into(),
        assumptions: vec![
            "schedule coverage is what the OS scheduler plus injected yields produce; a failure may need several runs to reproduce (the replay command runs a case 5 times)".into(),
            "what concurrent first opens do to the keyring key is judged in C13; here they must all succeed".into(),
        ],
        min_nontrivial: 20,
        max_shrink_iters: 30,
        exhaustive: false,
    };
    drive(
        args,
        spec,
        // the cases are multi-threaded themselves: few workers
        RunPlan { cases, workers: 3 },
        || {
            (any::<bool>(), 1u8..4, 20u16..max_cycles, 0u8..9, 0u8..5, prop::collection::vec(0u8..6, 1..6), 1u8..5, 0u8..7, prop_oneof![2 => Just(0u8), 1 => 2u8..13], prop_oneof![1 => Just(0u8), 2 => 2u8..7])
                .prop_map(|(sqlite, groups, writers_cycles, readers, snapshotters, yields, relay_set_size, claimers, first_opens, consumers)| Case { sqlite, groups, writers_cycles, readers, snapshotters, yields, relay_set_size, claimers, first_opens, consumers })
        },
        exec,
    )
}
