//! Shared execution of a plan in a world, with pluggable observers and post-oracles.

use crate::oracles;
use crate::runner::{CaseReport, Failure, Mode, set_last_trace};
use crate::world::{ChainState, Observer, Plan, World};

pub struct Finished {
    pub world: World,
    pub chain: Vec<ChainState>,
    pub passes: usize,
}

pub fn run_plan(plan: &Plan, mode: Mode, obs: &mut dyn Observer) -> Result<Finished, Failure> {
    let mut w = World::new(&plan.setup).map_err(|e| Failure::new("setup-failed", e))?;
    w.strict = mode == Mode::Strict;
    let r = (|| -> Result<(Vec<ChainState>, usize), Failure> {
        for op in &plan.ops {
            w.apply_op(op, obs)?;
        }
        let passes = w.quiesce(obs, 14)?.ok_or_else(|| {
            Failure::new(
                "no-fixpoint",
                "re-offering every event to every member did not reach a fixed point within 14 passes",
            )
        })?;
        let chain = if w.reference.is_some() {
            w.walk_chain()?
        } else {
            vec![]
        };
        Ok((chain, passes))
    })();
    match r {
        Ok((chain, passes)) => {
            if std::env::var("VCHECK_TRACE_ALWAYS").is_ok() {
                for l in &w.trace {
                    println!("{l}");
                }
            }
            Ok(Finished {
            world: w,
            chain,
            passes,
        })
        }
        Err(f) => {
            set_last_trace(std::mem::take(&mut w.trace));
            Err(f)
        }
    }
}

/// run a post-oracle, keeping the trace when it fails
pub fn judge<T>(
    fin: &mut Finished,
    f: impl FnOnce(&World, &[ChainState]) -> Result<T, Failure>,
) -> Result<T, Failure> {
    match f(&fin.world, &fin.chain) {
        Ok(t) => Ok(t),
        Err(e) => {
            set_last_trace(std::mem::take(&mut fin.world.trace));
            Err(e)
        }
    }
}

pub fn base_report(fin: &Finished) -> CaseReport {
    let mut rep = CaseReport::default();
    oracles::classify(&fin.world, &fin.chain, &mut rep);
    *rep.counters.entry("quiescence-passes".into()).or_insert(0) += fin.passes as u64;
    rep
}
