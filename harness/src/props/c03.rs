//! C03 — only members of the sending epoch ever obtain a message's plaintext.

use mdk_storage_traits::groups::types::GroupState;
use nostr::{EventBuilder, Kind};
use proptest::prelude::*;

use crate::on_mdk;
use crate::oracles::ConfidentialityObserver;
use crate::plangen::{SetupOpts, Weights, plan_strategy};
use crate::props::common::{base_report, run_plan};
use crate::runner::{Args, CaseReport, Failure, Mode, RunPlan, Spec, Tier, drive, set_last_trace};
use crate::world::{Plan, Regime};

pub fn exec(plan: &Plan, mode: Mode) -> Result<CaseReport, Failure> {
    let mut obs = ConfidentialityObserver::default();
    let mut fin = run_plan(plan, mode, &mut obs)?;
    let w = &mut fin.world;
    let gid = w.gid.clone();
    let mut evicted = 0;
    let mut replayed = 0u64;
    let r = (|| -> Result<(), Failure> {
        for m in w.actors() {
            obs.check_store(w, m, "at the end of the history")?;
            let cl = &w.clients[m];
            if cl.mdk.is_none() {
                continue;
            }
            // "processed its own removal" judged by the MLS state itself, not by the record the
            // clause is about: once the removal has been merged there, the record must say so
            if w.full(m).mls_active == Some(false) && w.group_state(m) == Some(GroupState::Active) {
                return Err(Failure::new(
                    "removed-client-not-inactive",
                    format!("c{m}'s MLS state has merged its own removal (the group is no longer active there), yet the stored group record is still Active"),
                ));
            }
            // a client that has processed its own removal: inactive, cannot send - also after
            // every invitation it had answered before is delivered once more under a new wrapper
            // id and, should that leave something pending, accepted
            if cl.evicted_at.is_some() && cl.cur.is_none() {
                if w.group_state(m) == Some(GroupState::Inactive) {
                    for (k, wl) in w.welcomes.iter().enumerate().filter(|(_, wl)| wl.to == m && wl.processed && wl.answered) {
                        let mut id = [0xEDu8; 32];
                        id[1] = k as u8;
                        id[2] = m as u8;
                        let fresh = nostr::EventId::from_byte_array(id);
                        if let Ok(again) = on_mdk!(cl.mdk(), mm => mm.process_welcome(&fresh, &wl.rumor)) {
                            replayed += 1;
                            if again.state == mdk_storage_traits::welcomes::types::WelcomeState::Pending {
                                let _ = on_mdk!(cl.mdk(), mm => mm.accept_welcome(&again));
                            }
                        }
                    }
                }
                evicted += 1;
                if w.group_state(m) != Some(GroupState::Inactive) {
                    return Err(Failure::new(
                        "removed-client-not-inactive",
                        format!("c{m} processed its own removal but holds the group as {:?}", w.group_state(m)),
                    ));
                }
                let rumor = EventBuilder::new(Kind::Custom(9), "after-removal").build(cl.keys.public_key());
                let r = on_mdk!(cl.mdk(), mm => mm.create_message(&gid, rumor));
                if r.is_ok() {
                    return Err(Failure::new(
                        "removed-client-can-still-send",
                        format!("c{m} processed its own removal and create_message still succeeds"),
                    ));
                }
            }
        }
        Ok(())
    })();
    if let Err(f) = r {
        set_last_trace(std::mem::take(&mut fin.world.trace));
        return Err(f);
    }
    let mut rep = base_report(&fin);
    rep.nontrivial = obs.nontrivial > 0;
    rep.classes.extend(obs.classes.iter().cloned());
    *rep.counters.entry("stored-foreign-messages-judged".into()).or_insert(0) += obs.judged;
    *rep.counters.entry("clients-checked-after-own-removal".into()).or_insert(0) += evicted;
    *rep.counters.entry("old-invitations-replayed-to-removed-clients".into()).or_insert(0) += replayed;
    Ok(rep)
}

pub fn main(args: &Args) -> i32 {
    let (cases, len, sql) = match args.tier {
        Tier::Quick => (900, 12..50, 15),
        Tier::Thorough => (16 * 1200, 12..80, 30),
    };
    let opts = SetupOpts {
        min_members: 3,
        sql_percent: sql,
        // every observer is offered everything
        regimes: vec![Regime::Unrestricted, Regime::Unrestricted, Regime::Causal],
        retention: 2..=5,
        spares: 3,
        side_percent: 35,
        ..SetupOpts::default()
    };
    let weights = Weights {
        msg: 10,
        add: 4,
        remove: 5,
        leave: 3,
        self_update: 3,
        data: 3,
        deliver: 14,
        welcome: 4,
        replay: 3,
        immediate: 1,
        side: 5,
        reinvite: true,
        ..Weights::default()
    };
    let spec = Spec {
        id: "C03",
        level: "exploration",
        rule: "histories of adds, removals, leaves (+ auto-commit), self-updates, Nostr-id rotations, races and replays with frequent messages; every client - never-invited outsiders, ex-members keeping their whole local state incl. past exporter secrets, late joiners, members - is offered every wrapper event (forward and reversed, until nothing changes) and its invitations. Judged on every delivery and on every store at the end: a message's content is returned or stored only at a client whose identity was in the sender's member list when the message was created; after processing its own removal a client holds the group Inactive, cannot send and stores nothing more - also after the invitations it had answered earlier are delivered again under new wrapper ids (and accepted, should that leave one pending); a removal an admin's call committed (one to three members per call, keys in plan-chosen order) is really in the roster of every receiver that applies it. A third of the worlds carry a second live group on some of the same clients (one client possibly in that group only): its events given to non-members, main-group events given to the client that is only in the other group, and events re-tagged with the other group's id must be refused without effect. Non-trivial = a client that was not a member of the sending epoch was offered an application message; distinct = distinct plans".into(),
        assumptions: vec![
            "membership of the sending epoch = the member list the sender saw when it created the message (known to the harness for every branch, winning or not)".into(),
            "message contents are unique canaries, so holdings are recognised without trusting ids".into(),
        ],
        min_nontrivial: 20,
        max_shrink_iters: 400,
        exhaustive: false,
    };
    drive(
        args,
        spec,
        RunPlan { cases, workers: 16 },
        || {
            // one history in ten starts with a directed prelude: the leaver's removal arrives in
            // the same commit as an addition that re-populates its leaf
            (plan_strategy(&opts, &weights, len.clone()), 0u8..10, any::<u8>())
                .prop_map(|(mut p, roll, leaver)| {
                    if roll == 0 {
                        crate::plangen::leave_swept_into_add_prelude(&mut p, leaver);
                    }
                    p
                })
                .boxed()
        },
        exec,
    )
}
