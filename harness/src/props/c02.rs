//! C02 — application messages on the winning branch arrive exactly once, intact and valid.

use crate::oracles;
use crate::plangen::{SetupOpts, Weights, plan_strategy};
use crate::props::common::{base_report, judge, run_plan};
use crate::runner::{Args, CaseReport, Failure, Mode, RunPlan, Spec, Tier, drive};
use proptest::prelude::*;
use crate::world::{Cfg, NoObserver, Plan, Regime};

pub fn exec(plan: &Plan, mode: Mode) -> Result<CaseReport, Failure> {
    let mut obs = NoObserver;
    let mut fin = run_plan(plan, mode, &mut obs)?;
    let m = judge(&mut fin, |w, chain| oracles::check_messages(w, chain, mode))?;
    let mut rep = base_report(&fin);
    rep.nontrivial = m.nontrivial > 0;
    rep.classes.extend(m.classes.iter().cloned());
    rep.excused = m.excused.clone();
    *rep.counters.entry("message-receiver-pairs-checked".into()).or_insert(0) += m.checked_pairs;
    *rep.counters.entry("losing-branch-message-checks".into()).or_insert(0) += m.losing_checked;
    *rep.counters.entry("outside-configured-window(dont-care)".into()).or_insert(0) += m.dont_care;
    Ok(rep)
}

pub fn cfgs() -> Vec<Cfg> {
    vec![
        Cfg::default(),
        Cfg::default(),
        Cfg {
            out_of_order_tolerance: 2,
            maximum_forward_distance: 3,
            max_past_epochs: 1,
            ..Cfg::default()
        },
        Cfg {
            max_past_epochs: 0,
            ..Cfg::default()
        },
    ]
}

pub fn main(args: &Args) -> i32 {
    let (cases, len, sql) = match args.tier {
        Tier::Quick => (1200, 10..50, 12),
        Tier::Thorough => (16 * 2000, 10..80, 25),
    };
    let opts = SetupOpts {
        sql_percent: sql,
        regimes: vec![Regime::Causal, Regime::Causal, Regime::Unrestricted],
        retention: 2..=6,
        // the default sender-ratchet windows (100 behind / 1000 ahead) are far beyond what a plan
        // produces; small non-default windows make the window boundaries reachable
        cfgs: vec![
            Cfg::default(),
            Cfg::default(),
            Cfg { out_of_order_tolerance: 4, maximum_forward_distance: 14, ..Cfg::default() },
            Cfg { out_of_order_tolerance: 12, maximum_forward_distance: 5, ..Cfg::default() },
            Cfg { out_of_order_tolerance: 3, maximum_forward_distance: 30, max_past_epochs: 3, ..Cfg::default() },
            Cfg { max_past_epochs: 7, ..Cfg::default() },
        ],
        ..SetupOpts::default()
    };
    let weights = Weights {
        msg: 12,
        burst: 3,
        deliver: 16,
        redeliver: 4,
        immediate: 0,
        ..Weights::default()
    };
    let spec = Spec {
        id: "C02",
        level: "exploration",
        rule: "C01-style plans enriched with application messages; judged per (message, receiver) pair after quiescence against the sender's rumor; bursts of up to 16 messages by one member and small non-default sender-ratchet windows (out-of-order tolerance 3..12, forward distance 5..30, past epochs 3 and 7) make the window boundaries reachable: a message is don't-care only if it may lie outside the receiver's configured window for some ratchet position between 0 and the highest position handed over before, otherwise it must be stored; a sixth of the histories start with a directed prelude at the boundary of the past-epoch window (a message held back for window - 1, window and window + 1 commits at its receiver and its sender); non-trivial = a message first handed to a receiver after the receiver changed epoch, or a message of a losing branch held by a converged client; distinct = distinct plans".into(),
        assumptions: vec![
            "only members that agree with the reference replica's final state are judged (divergence itself is C01's subject)".into(),
            "deliveries more than max_past_epochs epochs late are don't-care".into(),
            "a rollback resets the receiver's ratchet position; the oracle therefore demands acceptance only inside the window for every possible position (one position of slack at both ends)".into(),
        ],
        min_nontrivial: 20,
        max_shrink_iters: 400,
        exhaustive: false,
    };
    drive(
        args,
        spec,
        RunPlan { cases, workers: 16 },
        || {
            // a sixth of the histories start with a directed prelude at the boundary of the
            // past-epoch window: a message is held back while its receiver (and its sender)
            // apply max_past_epochs - 1, exactly max_past_epochs, or one more commit
            (plan_strategy(&opts, &weights, len.clone()), 0u8..6, 0u8..4)
                .prop_map(|(mut p, roll, off)| {
                    if roll == 0 {
                        use crate::world::{Apply, Op};
                        p.setup.members = 3;
                        p.setup.regime = Regime::Causal;
                        p.setup.cfg.retention = p.setup.cfg.retention.max(2);
                        let window = p.setup.cfg.max_past_epochs as u32;
                        // off: 0 -> window - 1, 1 and 2 -> window, 3 -> window + 1
                        let d = (window + [0u32, 1, 1, 2][off as usize]).saturating_sub(1).max(1);
                        let n_act = 3 + p.setup.spares as u32;
                        let act = |i: u32| (((i << 16) / 3) + 1) as u16;
                        let mem = |i: u32| (((i << 16) / n_act) + 1) as u16;
                        let mut pre = vec![Op::Msg { m: act(1), kind: 0, at: 0, tag: 1 }];
                        for _ in 0..d {
                            pre.push(Op::SelfUpdate { m: act(0), ts: 1, apply: Apply::Echo });
                            pre.push(Op::SelfEcho { m: mem(0) });
                            // the newest event only: the commit, not the held-back message
                            pre.push(Op::Deliver { m: mem(2), sel: u16::MAX });
                            pre.push(Op::Deliver { m: mem(1), sel: u16::MAX });
                        }
                        pre.push(Op::CatchUp { m: mem(2) });
                        pre.push(Op::CatchUp { m: mem(1) });
                        pre.push(Op::CatchUp { m: mem(0) });
                        p.ops.truncate(20);
                        let tail = std::mem::take(&mut p.ops);
                        p.ops = pre;
                        p.ops.extend(tail);
                    }
                    p
                })
                .boxed()
        },
        exec,
    )
}
