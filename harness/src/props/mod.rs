pub mod c01;
