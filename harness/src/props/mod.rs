pub mod c01;
pub mod c02;
pub mod c07;
pub mod c08;
pub mod common;
pub mod store;
pub mod c18;
