//! C20 — rollback snapshots stay bounded in number and age.

use crate::oracles::{SnapshotObserver, list_snapshots};
use crate::plangen::{SetupOpts, Weights, plan_strategy};
use crate::props::common::{base_report, run_plan};
use crate::runner::{Args, CaseReport, Failure, Mode, RunPlan, Spec, Tier, drive, set_last_trace};
use crate::world::{BackendKind, Cfg, Plan, Regime};

pub fn exec(plan: &Plan, mode: Mode) -> Result<CaseReport, Failure> {
    let mut obs = SnapshotObserver::default();
    let mut fin = run_plan(plan, mode, &mut obs)?;
    let mut ttl_checked = 0u64;
    let mut rolled_first = 0u64;
    let r = (|| -> Result<(), Failure> {
        let actors = fin.world.actors();
        for &m in &actors {
            obs.check_client(&fin.world, m, "end-of-history")?;
        }
        // time-to-live: on start-up everything older than the TTL is gone
        if fin.world.setup.cfg.ttl <= 1 {
            let sql: Vec<usize> = actors
                .iter()
                .copied()
                .filter(|&m| fin.world.clients[m].kind == BackendKind::Sql && fin.world.clients[m].mdk.is_some() && !fin.world.clients[m].reached.is_empty())
                .collect();
            if !sql.is_empty() {
                std::thread::sleep(std::time::Duration::from_millis(2100));
                for m in sql {
                    let before = list_snapshots(&fin.world, m).unwrap_or_default();
                    // every other client first rolls its storage back to its newest snapshot: the
                    // snapshots that survive a rollback are as old as before
                    if m % 2 == 0 && before.len() >= 2 {
                        use mdk_storage_traits::MdkStorageProvider;
                        use openmls_traits::OpenMlsProvider;
                        let name = before.last().unwrap().0.clone();
                        let gid = fin.world.gid.clone();
                        let _ = crate::on_mdk!(fin.world.clients[m].mdk(), mm => mm.provider.storage().rollback_group_to_snapshot(&gid, &name));
                        rolled_first += 1;
                    }
                    fin.world.restart(m)?;
                    let after = list_snapshots(&fin.world, m).map_err(|e| Failure::new("snapshot-listing-failed", e))?;
                    ttl_checked += 1;
                    if !after.is_empty() {
                        return Err(Failure::new(
                            "expired-snapshots-survive-startup",
                            format!(
                                "c{m}: time-to-live {} s, restarted more than 2 s after the last snapshot was taken, yet {} of {} snapshots are still there",
                                fin.world.setup.cfg.ttl,
                                after.len(),
                                before.len()
                            ),
                        ));
                    }
                }
            }
        }
        Ok(())
    })();
    if let Err(f) = r {
        set_last_trace(std::mem::take(&mut fin.world.trace));
        return Err(f);
    }
    let mut rep = base_report(&fin);
    rep.nontrivial = obs.nontrivial > 0;
    rep.classes.extend(obs.classes.iter().cloned());
    rep.classes.push(format!("retention-{}", fin.world.setup.cfg.retention));
    rep.classes.push(format!("max-snapshots-seen-{}", obs.max_seen));
    let max_epoch = fin.world.actors().iter().flat_map(|&m| fin.world.clients[m].reached.iter().map(|k| k.epoch)).max().unwrap_or(0);
    rep.classes.push(if max_epoch >= 10 { "two-digit-epoch-reached".to_string() } else { format!("max-epoch-{max_epoch}") });
    *rep.counters.entry("snapshot-list-checks".into()).or_insert(0) += obs.checks;
    *rep.counters.entry("ttl-startup-checks".into()).or_insert(0) += ttl_checked;
    *rep.counters.entry("ttl-startup-checks-right-after-a-rollback".into()).or_insert(0) += rolled_first;
    Ok(rep)
}

pub fn main(args: &Args) -> i32 {
    let (cases, len, sql) = match args.tier {
        Tier::Quick => (480, 15..60, 35),
        Tier::Thorough => (16 * 600, 15..110, 45),
    };
    let mut cfgs = vec![Cfg::default(); 7];
    cfgs.push(Cfg { ttl: 1, ..Cfg::default() });
    // "never expire": nothing may be pruned at start-up
    cfgs.push(Cfg { ttl: u64::MAX, ..Cfg::default() });
    // zero: nothing taken before "now" survives a start-up
    cfgs.push(Cfg { ttl: 0, ..Cfg::default() });
    let opts = SetupOpts {
        min_members: 2,
        max_members: 4,
        sql_percent: sql,
        regimes: vec![Regime::Causal, Regime::Unrestricted],
        retention: 0..=6,
        cfgs,
        spares: 1,
        ..SetupOpts::default()
    };
    let weights = Weights {
        msg: 1,
        self_update: 10,
        data: 6,
        self_echo: 8,
        catch_up: 6,
        sync: 2,
        restart: 2,
        immediate: 1,
        leave: 0,
        // stored snapshots disappear behind a client's back (a second instance pruning): the
        // next race then runs into a rollback that storage refuses
        vanish: 2,
        // commits that receivers refuse: a refused commit is none of "its most recent commits"
        // and must not leave a snapshot behind
        rogue_commit: 2,
        ..Weights::default()
    };
    let spec = Spec {
        id: "C20",
        level: "exploration",
        rule: "commit-heavy histories (long chains so that two-digit epochs occur, races and rollbacks, restarts) with snapshot retention 0..6 on both backends; after every API call the acting client's list_group_snapshots must hold at most `retention` entries and exactly the (epoch, commit id) pairs of its most recent commits applied through process_message on its current branch (entries at or above a rollback target are dropped, the re-applied winner is added); stored snapshots (all, or only the oldest) occasionally disappear behind a client's back, so that a later commit race runs into a refused rollback - the bound must hold afterwards as well (vanished names are not expected; a sixth of the histories start with a directed prelude: a losing branch three commits deep, its oldest snapshot gone, the better commit arriving, the branch going on); with a 1 s time-to-live every SQLite client restarted more than 2 s later must come up with no snapshot. Non-trivial = retention pruned an entry or a rollback dropped a suffix; distinct = distinct plans".into(),
        assumptions: vec![
            "commits applied with merge_pending_commit take no snapshot (that is known finding O6 of C01, not a bound violation)".into(),
            "snapshot names encode (epoch, commit id); they are compared as a set".into(),
        ],
        min_nontrivial: 15,
        max_shrink_iters: 300,
        exhaustive: false,
    };
    drive(
        args,
        spec,
        RunPlan { cases, workers: 16 },
        || {
            use proptest::prelude::*;
            // a warm-up of 0..12 uncontested commits so that two-digit epochs occur
            (0usize..13, plan_strategy(&opts, &weights, len.clone()), 0u8..6, any::<bool>()).prop_map(|(warm, mut plan, roll, sql)| {
                use crate::world::{Apply, Op};
                if roll == 0 {
                    // directed: a losing branch three commits deep at c2, its oldest snapshot
                    // disappears, the better commit arrives (the rollback is refused by storage),
                    // and the losing branch goes on - the bound must still hold
                    plan.setup.members = 3;
                    plan.setup.admin_mask = 1;
                    plan.setup.regime = Regime::Causal;
                    plan.setup.cfg.retention = plan.setup.cfg.retention.clamp(2, 4);
                    plan.setup.cfg.ttl = Cfg::default().ttl;
                    if sql {
                        plan.setup.backends = vec![BackendKind::Sql; 10];
                    }
                    let n_act = 3 + plan.setup.spares as u32;
                    let act = |i: u32| (((i << 16) / 2) + 1) as u16; // c0, c1 act (c2 only receives here, but is active too)
                    let _ = act;
                    let a3 = |i: u32| (((i << 16) / 3) + 1) as u16;
                    let mem = |i: u32| (((i << 16) / n_act) + 1) as u16;
                    let mut pre = vec![];
                    for _ in 0..3 {
                        pre.push(Op::SelfUpdate { m: a3(0), ts: 3, apply: Apply::Echo });
                        pre.push(Op::SelfEcho { m: mem(0) });
                    }
                    pre.push(Op::SelfUpdate { m: a3(1), ts: 1, apply: Apply::Echo });
                    for _ in 0..3 {
                        pre.push(Op::Deliver { m: mem(2), sel: 0 });
                    }
                    pre.push(Op::SnapshotsVanish { m: mem(2), only_oldest: true });
                    pre.push(Op::Deliver { m: mem(2), sel: 0 });
                    for _ in 0..3 {
                        pre.push(Op::SelfUpdate { m: a3(0), ts: 3, apply: Apply::Echo });
                        pre.push(Op::SelfEcho { m: mem(0) });
                        pre.push(Op::CatchUp { m: mem(2) });
                    }
                    plan.ops.truncate(20);
                    pre.extend(plan.ops);
                    plan.ops = pre;
                    return plan;
                }
                let mut pre = vec![];
                for i in 0..warm {
                    pre.push(crate::world::Op::SelfUpdate { m: (i as u16).wrapping_mul(7919), ts: (i % 6) as u8, apply: crate::world::Apply::Echo });
                    pre.push(crate::world::Op::Sync);
                }
                pre.extend(plan.ops);
                plan.ops = pre;
                plan
            })
        },
        exec,
    )
}
