//! C12 — a crash at any storage step leaves a recoverable database (fault enumeration).
//!
//! A scenario is built in a world whose victim client lives on SQLite. The victim's database
//! file is copied; a twin copy runs the target call uninterrupted (counting the storage ticks
//! K); then, for every k < K, a fresh copy runs the call with the tick hook armed to panic at
//! tick k (process death: the instance is dropped with whatever was written), the file is
//! reopened and the recovery oracle runs.

use std::cell::Cell;
use std::collections::BTreeMap;
use std::path::{Path, PathBuf};
use std::rc::Rc;
use std::sync::Arc;

use mdk_core::messages::MessageProcessingResult;
use mdk_storage_traits::groups::GroupStorage;
use mdk_storage_traits::messages::MessageStorage;
use mdk_storage_traits::messages::types::ProcessedMessageState;
use mdk_storage_traits::{GroupId, MdkStorageProvider};
use nostr::{Event, EventBuilder, Kind};
use openmls_traits::OpenMlsProvider;
use proptest::prelude::*;
use serde::{Deserialize, Serialize};

use crate::fingerprint::{self as fp, Full};
use crate::on_mdk;
use crate::runner::{Args, CaseReport, Failure, Mode, RunPlan, Spec, Tier, drive, set_last_trace};
use crate::storemodel as sm;
use crate::world::{
    AnyMdk, Apply, BackendKind, Cfg, DataChange, NoObserver, Op, Regime, RollbackRecorder, Setup, World, open_client_mdk,
};

#[derive(Clone, Copy, Debug, PartialEq, Eq, Hash, Serialize, Deserialize)]
pub enum Scenario {
    /// process_message(application message)
    App,
    /// process_message(leave proposal) at a non-admin (queued)
    Proposal,
    /// process_message(leave proposal) at an admin (auto-commit)
    ProposalAtAdmin,
    /// process_message(commit by a peer)
    Commit,
    /// process_message(better competing commit) after a worse one was applied
    CommitWithRollback,
    /// process_message(own commit coming back from the relay)
    OwnCommitEcho,
    /// merge_pending_commit
    MergePending,
    /// process_message(commit that removes the victim)
    CommitEvictingVictim,
    ProcessWelcome,
    AcceptWelcome,
    CreateGroup,
    CreateMessage,
    /// process_message(own application message coming back from the relay)
    OwnMessageEcho,
    /// self_update (creates a pending commit)
    SelfUpdateCall,
    /// add_members at an admin (pending commit + welcome)
    AddMembersCall,
    /// remove_members at an admin
    RemoveMembersCall,
    /// update_group_data at an admin (name / relays / Nostr group id by `commit_kind`)
    UpdateGroupDataCall,
    /// leave_group (creates a proposal message)
    LeaveGroupCall,
    /// process_welcome + accept_welcome at a former member (removed, invited again) that still
    /// stores the messages of its earlier membership
    RejoinWelcome,
    RawSnapshot,
    RawRollback,
    RawRelays,
}

#[derive(Clone, Debug, PartialEq, Eq, Hash, Serialize, Deserialize)]
pub struct Case {
    pub scenario: Scenario,
    pub members: u8,
    pub warm_commits: u8,
    pub warm_messages: u8,
    pub commit_kind: u8,
    /// 0 = every tick; n>0 = every n-th tick plus the first and last three
    pub stride: u8,
    /// die by abort() in a child process instead of unwinding in-process
    #[serde(default)]
    pub abort_in_child: bool,
}

thread_local! {
    static TICKS: Cell<u64> = const { Cell::new(0) };
    static ARMED: Cell<Option<u64>> = const { Cell::new(None) };
    /// when set: the database file is hashed at every tick (landmarks of the uninterrupted run)
    static WATCH: std::cell::RefCell<Option<(PathBuf, Vec<u64>)>> = const { std::cell::RefCell::new(None) };
    static WATCH_LABELS: std::cell::RefCell<Vec<&'static str>> = const { std::cell::RefCell::new(Vec::new()) };
    static FIRST_WRITE: Cell<u64> = const { Cell::new(0) };
    /// first durable write that is not the storage layer's own snapshot transaction
    static FIRST_CORE_WRITE: Cell<u64> = const { Cell::new(0) };
    static APP_TARGET: Cell<bool> = const { Cell::new(false) };
    static LAST_WRITE: Cell<u64> = const { Cell::new(0) };
}

fn file_hash(p: &Path) -> u64 {
    use std::hash::Hasher;
    let mut h = std::collections::hash_map::DefaultHasher::new();
    if let Ok(b) = std::fs::read(p) {
        h.write(&b);
    }
    h.finish()
}

fn install_counter() {
    TICKS.with(|t| t.set(0));
    if WATCH.with(|w| w.borrow().is_some()) {
        WATCH_LABELS.with(|l| l.borrow_mut().clear());
    }
    mdk_sqlite_storage::verif::set_tick_handler(Some(Rc::new(|label: &'static str| {
        let n = TICKS.with(|t| {
            let v = t.get();
            t.set(v + 1);
            v
        });
        WATCH.with(|w| {
            if let Some((p, v)) = w.borrow_mut().as_mut() {
                let h = file_hash(p);
                v.push(h);
                WATCH_LABELS.with(|l| l.borrow_mut().push(label));
            }
        });
        if ARMED.with(|a| a.get()) == Some(n) {
            ARMED.with(|a| a.set(None));
            panic!("vcheck: simulated process death at storage tick {n}");
        }
    })));
}

fn uninstall() {
    mdk_sqlite_storage::verif::set_tick_handler(None);
    ARMED.with(|a| a.set(None));
}

fn open(path: &Path, cfg: &Cfg) -> Result<AnyMdk, String> {
    open_client_mdk(BackendKind::Sql, Some(&path.to_path_buf()), cfg, Arc::new(RollbackRecorder::default()))
}

fn copy_db(src: &Path, dst: &Path) -> Result<(), Failure> {
    let _ = std::fs::remove_file(dst);
    for suffix in ["-journal", "-wal", "-shm"] {
        let _ = std::fs::remove_file(PathBuf::from(format!("{}{suffix}", dst.display())));
    }
    std::fs::copy(src, dst).map(|_| ()).map_err(|e| Failure::new("setup-failed", format!("copy db: {e}")))
}

/// what the victim is asked to do
#[derive(Clone, Serialize, Deserialize)]
enum Target {
    Deliver(Event),
    Merge,
    ProcessWelcome(nostr::EventId, nostr::UnsignedEvent),
    AcceptWelcome(nostr::EventId, nostr::UnsignedEvent),
    CreateMessage,
    SelfUpdate,
    CreateGroup(Vec<Event>, #[serde(with = "keys_serde")] nostr::Keys),
    AddMembers(Vec<Event>),
    RemoveMembers(Vec<nostr::PublicKey>),
    UpdateData(u8),
    LeaveGroup,
}

mod keys_serde {
    use serde::{Deserialize, Deserializer, Serializer};
    pub fn serialize<S: Serializer>(k: &nostr::Keys, s: S) -> Result<S::Ok, S::Error> {
        s.serialize_str(&k.secret_key().to_secret_hex())
    }
    pub fn deserialize<'de, D: Deserializer<'de>>(d: D) -> Result<nostr::Keys, D::Error> {
        let h = String::deserialize(d)?;
        nostr::Keys::parse(&h).map_err(serde::de::Error::custom)
    }
}

#[derive(Clone, Debug, PartialEq, Eq)]
struct Observed {
    groups: Vec<(String, Full)>,
}

fn observe(mdk: &AnyMdk) -> Result<Observed, String> {
    let groups = on_mdk!(mdk, m => m.get_groups()).map_err(|e| format!("get_groups: {e}"))?;
    let mut out = vec![];
    for g in groups {
        // every group must load (a pending invitation has a record but no MLS state yet)
        let loaded = on_mdk!(mdk, m => m.load_mls_group(&g.mls_group_id)).map_err(|e| format!("load_mls_group: {e}"))?;
        if loaded.is_none() && g.state != mdk_storage_traits::groups::types::GroupState::Pending {
            return Err(format!("{:?} group record without MLS state", g.state));
        }
        let f = on_mdk!(mdk, m => fp::full(m, &g.mls_group_id)).without_clock();
        if let (Some(e), true) = (&f.mls_error, loaded.is_some()) {
            return Err(format!("group does not load: {e}"));
        }
        out.push((hex::encode(g.mls_group_id.as_slice()), f));
    }
    out.sort_by(|a, b| a.0.cmp(&b.0));
    Ok(Observed { groups: out })
}

fn run_target(mdk: &AnyMdk, gid: &GroupId, keys: &nostr::Keys, t: &Target) -> Result<String, String> {
    match t {
        Target::Deliver(ev) => match on_mdk!(mdk, m => m.process_message(ev)) {
            Ok(MessageProcessingResult::ApplicationMessage(_)) => Ok("app".into()),
            Ok(MessageProcessingResult::Commit { .. }) => Ok("commit".into()),
            Ok(MessageProcessingResult::Proposal(_)) => Ok("auto-commit".into()),
            Ok(MessageProcessingResult::PendingProposal { .. }) => Ok("pending-proposal".into()),
            Ok(MessageProcessingResult::Unprocessable { .. }) => Err("unprocessable".into()),
            Ok(MessageProcessingResult::PreviouslyFailed) => Err("previously-failed".into()),
            Ok(_) => Ok("other".into()),
            Err(e) => Err(e.to_string()),
        },
        Target::Merge => on_mdk!(mdk, m => m.merge_pending_commit(gid)).map(|_| "merged".to_string()).map_err(|e| e.to_string()),
        Target::ProcessWelcome(w, r) => on_mdk!(mdk, m => m.process_welcome(w, r)).map(|_| "welcome".to_string()).map_err(|e| e.to_string()),
        Target::AcceptWelcome(w, r) => {
            let wl = on_mdk!(mdk, m => m.process_welcome(w, r)).map_err(|e| e.to_string())?;
            on_mdk!(mdk, m => m.accept_welcome(&wl)).map(|_| "accepted".to_string()).map_err(|e| e.to_string())
        }
        Target::CreateMessage => {
            let rumor = EventBuilder::new(Kind::Custom(9), "crash-canary").build(keys.public_key());
            on_mdk!(mdk, m => m.create_message(gid, rumor)).map(|_| "created".to_string()).map_err(|e| e.to_string())
        }
        Target::SelfUpdate => on_mdk!(mdk, m => m.self_update(gid)).map(|_| "self-update".to_string()).map_err(|e| e.to_string()),
        Target::AddMembers(kps) => on_mdk!(mdk, m => m.add_members(gid, kps)).map(|_| "add-members".to_string()).map_err(|e| e.to_string()),
        Target::RemoveMembers(pks) => on_mdk!(mdk, m => m.remove_members(gid, pks)).map(|_| "remove-members".to_string()).map_err(|e| e.to_string()),
        Target::UpdateData(k) => {
            let mut upd = mdk_core::groups::NostrGroupDataUpdate::default();
            match k % 3 {
                0 => upd.name = Some("crash-name".into()),
                1 => upd.relays = Some(vec![crate::world::relay_url(5), crate::world::relay_url(6)]),
                _ => upd.nostr_group_id = Some([0x5A; 32]),
            }
            on_mdk!(mdk, m => m.update_group_data(gid, upd)).map(|_| "update-group-data".to_string()).map_err(|e| e.to_string())
        }
        Target::LeaveGroup => on_mdk!(mdk, m => m.leave_group(gid)).map(|_| "leave".to_string()).map_err(|e| e.to_string()),
        Target::CreateGroup(kps, _) => {
            let cfg = mdk_core::groups::NostrGroupConfigData::new(
                "crash group".into(),
                "d".into(),
                None,
                None,
                None,
                vec![crate::world::relay_url(0)],
                vec![keys.public_key()],
            );
            on_mdk!(mdk, m => m.create_group(&keys.public_key(), kps.clone(), cfg)).map(|_| "group".to_string()).map_err(|e| e.to_string())
        }
    }
}

struct Built {
    world: World,
    victim: usize,
    target: Target,
    /// events to hand over after the target (in order)
    later: Vec<Event>,
    label: String,
    /// events the same MDK instance processes right before the counted call (commit-with-rollback:
    /// the worse commit, so that its snapshot is live - a reopened instance forgets the commit's
    /// timestamp, listed finding O8)
    prelude: Vec<Event>,
}

fn build(case: &Case) -> Result<Option<Built>, Failure> {
    use Scenario as S;
    let members = case.members.clamp(2, 4);
    let mut backends = vec![BackendKind::Mem; 10];
    backends[1] = BackendKind::Sql; // the victim among members
    let with_ref = false;
    let first_spare = members as usize;
    backends[first_spare] = BackendKind::Sql; // the joiner for the welcome scenarios
    // victim is admin only where the scenario needs it
    let admin_mask = if matches!(case.scenario, S::ProposalAtAdmin | S::AddMembersCall | S::RemoveMembersCall | S::UpdateGroupDataCall) { 0b1 } else { 0 };
    let setup = Setup {
        members,
        admin_mask,
        backends,
        spares: 2,
        cfg: Cfg::default(),
        regime: Regime::Causal,
        with_reference: with_ref,
        twin: false,
        side: 0,
    };
    let mut w = World::new(&setup).map_err(|e| Failure::new("setup-failed", e))?;
    let mut obs = NoObserver;
    let v = 1usize;
    // selectors: client index -> u16 selector over actors
    // (local operations pick among the clients that currently hold the group as Active)
    fn sel_in(w: &World, i: usize) -> u16 {
        let a = w.active_actors();
        match a.iter().position(|x| *x == i) {
            Some(pos) => (((pos as u32) << 16) / a.len() as u32 + 1) as u16,
            None => 0,
        }
    }
    // warm-up: commits by the creator and messages, all delivered
    for i in 0..case.warm_commits.min(3) {
        w.apply_op(&Op::Data { m: sel_in(&w, 0), ts: i, apply: Apply::Echo, change: DataChange::Name(i) }, &mut obs)?;
        w.apply_op(&Op::Sync, &mut obs)?;
    }
    for i in 0..case.warm_messages.min(3) {
        w.apply_op(&Op::Msg { m: sel_in(&w, (i as usize) % members as usize), kind: i, at: i, tag: i }, &mut obs)?;
    }
    w.apply_op(&Op::Sync, &mut obs)?;
    let peer = if members > 2 { 2 } else { 0 };
    let deliver_all_but = |w: &mut World, skip: usize, obs: &mut NoObserver| -> Result<(), Failure> {
        for m in w.actors() {
            if m != skip {
                w.catch_up(m, obs)?;
            }
        }
        Ok(())
    };
    let before = w.relay.len();
    let mut prelude: Vec<Event> = vec![];
    let (target, label): (Target, String) = match case.scenario {
        S::App => {
            w.apply_op(&Op::Msg { m: sel_in(&w, 0), kind: 1, at: 1, tag: 1 }, &mut obs)?;
            (Target::Deliver(w.relay.last().unwrap().ev.clone()), "process_message(application)".into())
        }
        S::OwnMessageEcho => {
            w.apply_op(&Op::Msg { m: sel_in(&w, v), kind: 1, at: 1, tag: 1 }, &mut obs)?;
            if w.relay.len() == before || w.relay.last().unwrap().author != v {
                return Ok(None);
            }
            (Target::Deliver(w.relay.last().unwrap().ev.clone()), "process_message(own application message echo)".into())
        }
        S::Proposal | S::ProposalAtAdmin => {
            if members < 3 {
                return Ok(None);
            }
            w.apply_op(&Op::Leave { m: sel_in(&w, 2), ts: 1 }, &mut obs)?;
            if w.relay.len() == before {
                return Ok(None);
            }
            (Target::Deliver(w.relay.last().unwrap().ev.clone()), format!("process_message(leave proposal) at {}", if admin_mask != 0 { "an admin" } else { "a non-admin" }))
        }
        S::Commit | S::CommitEvictingVictim => {
            let op = if case.scenario == S::CommitEvictingVictim {
                // creator removes the victim: target selector over the creator's member list without itself
                Op::Remove { m: sel_in(&w, 0), target: 0, ts: 1, apply: Apply::Echo, extra: 0 }
            } else {
                match case.commit_kind % 4 {
                    0 => Op::SelfUpdate { m: sel_in(&w, 0), ts: 1, apply: Apply::Echo },
                    1 => Op::Data { m: sel_in(&w, 0), ts: 1, apply: Apply::Echo, change: DataChange::RotateId(1) },
                    2 => Op::Add { m: sel_in(&w, 0), ts: 1, apply: Apply::Echo, extra: 0 },
                    _ => Op::Data { m: sel_in(&w, 0), ts: 1, apply: Apply::Echo, change: DataChange::Relays(2) },
                }
            };
            w.apply_op(&op, &mut obs)?;
            if w.relay.len() == before {
                return Ok(None);
            }
            let t = w.relay.last().unwrap().ev.clone();
            if case.scenario == S::CommitEvictingVictim && !w.relay.last().unwrap().what.contains("remove_members c1") {
                return Ok(None);
            }
            (Target::Deliver(t), format!("process_message({})", w.relay.last().unwrap().what))
        }
        S::CommitWithRollback => {
            // two competing commits; the victim applies the worse one first
            w.apply_op(&Op::SelfUpdate { m: sel_in(&w, 0), ts: 3, apply: Apply::Echo }, &mut obs)?;
            let worse = w.relay.len() - 1;
            w.apply_op(&Op::SelfUpdate { m: sel_in(&w, peer.max(2).min(members as usize - 1)), ts: 1, apply: Apply::Echo }, &mut obs)?;
            if w.relay.len() != before + 2 || w.relay[before + 1].author == w.relay[before].author || w.relay[before + 1].author == v {
                // (with two members the competitor would be the victim itself: that is the own-echo scenario)
                return Ok(None);
            }
            prelude.push(w.relay[worse].ev.clone());
            (Target::Deliver(w.relay[before + 1].ev.clone()), "process_message(better competing commit; rollback)".into())
        }
        S::OwnCommitEcho | S::MergePending => {
            w.apply_op(&Op::SelfUpdate { m: sel_in(&w, v), ts: 1, apply: Apply::Echo }, &mut obs)?;
            if w.relay.len() == before || w.relay.last().unwrap().author != v {
                return Ok(None);
            }
            if case.scenario == S::MergePending {
                (Target::Merge, "merge_pending_commit".into())
            } else {
                (Target::Deliver(w.relay.last().unwrap().ev.clone()), "process_message(own commit echo)".into())
            }
        }
        S::ProcessWelcome | S::AcceptWelcome => {
            w.apply_op(&Op::Add { m: sel_in(&w, 0), ts: 1, apply: Apply::Echo, extra: 0 }, &mut obs)?;
            let Some(wl) = w.welcomes.last().cloned() else { return Ok(None) };
            if w.clients[wl.to].kind != BackendKind::Sql {
                return Ok(None);
            }
            let t = if case.scenario == S::ProcessWelcome {
                Target::ProcessWelcome(wl.wrapper, wl.rumor.clone())
            } else {
                Target::AcceptWelcome(wl.wrapper, wl.rumor.clone())
            };
            // the joiner is the victim here
            deliver_all_but(&mut w, wl.to, &mut obs)?;
            let label = if case.scenario == S::ProcessWelcome { "process_welcome" } else { "process_welcome + accept_welcome" };
            return Ok(Some(Built { victim: wl.to, target: t, later: later_events(&mut w, wl.to, &mut obs)?, world: w, label: label.into(), prelude: vec![] }));
        }
        S::RejoinWelcome => {
            if members < 3 {
                return Ok(None);
            }
            // the victim has seen at least one message, is removed, notices it, is invited again
            w.apply_op(&Op::Msg { m: sel_in(&w, 0), kind: 1, at: 1, tag: 1 }, &mut obs)?;
            w.apply_op(&Op::Sync, &mut obs)?;
            w.apply_op(&Op::Remove { m: sel_in(&w, 0), target: 0, ts: 1, apply: Apply::Echo, extra: 0 }, &mut obs)?;
            if !w.relay.last().map(|e| e.what.contains("remove_members c1")).unwrap_or(false) {
                return Ok(None);
            }
            w.apply_op(&Op::Sync, &mut obs)?;
            if w.group_state(v) != Some(mdk_storage_traits::groups::types::GroupState::Inactive) {
                return Ok(None);
            }
            let n_welcomes = w.welcomes.len();
            w.apply_op(&Op::Add { m: sel_in(&w, 0), ts: 1, apply: Apply::Echo, extra: 2 }, &mut obs)?;
            let Some(wl) = w.welcomes.last().cloned() else { return Ok(None) };
            if w.welcomes.len() == n_welcomes || wl.to != v {
                return Ok(None);
            }
            let t = Target::AcceptWelcome(wl.wrapper, wl.rumor.clone());
            deliver_all_but(&mut w, v, &mut obs)?;
            return Ok(Some(Built { victim: v, target: t, later: later_events(&mut w, v, &mut obs)?, world: w, label: "process_welcome + accept_welcome (re-invitation of a former member)".into(), prelude: vec![] }));
        }
        S::CreateGroup => {
            let kp = World::make_key_package(&w.clients[0]).map_err(|e| Failure::new("setup-failed", e))?;
            (Target::CreateGroup(vec![kp], w.clients[v].keys.clone()), "create_group".into())
        }
        S::CreateMessage => (Target::CreateMessage, "create_message".into()),
        S::SelfUpdateCall => (Target::SelfUpdate, "self_update".into()),
        S::AddMembersCall => {
            let kp = World::make_key_package(&w.clients[first_spare + 1]).map_err(|e| Failure::new("setup-failed", e))?;
            (Target::AddMembers(vec![kp]), "add_members".into())
        }
        S::RemoveMembersCall => {
            if members < 3 {
                return Ok(None);
            }
            (Target::RemoveMembers(vec![w.clients[2].keys.public_key()]), "remove_members".into())
        }
        S::UpdateGroupDataCall => (Target::UpdateData(case.commit_kind), format!("update_group_data({})", ["name", "relays", "Nostr group id"][(case.commit_kind % 3) as usize])),
        S::LeaveGroupCall => (Target::LeaveGroup, "leave_group".into()),
        S::RawSnapshot | S::RawRollback | S::RawRelays => unreachable!("raw scenarios are handled separately"),
    };
    // peers move on without the victim
    deliver_all_but(&mut w, v, &mut obs)?;
    let later = later_events(&mut w, v, &mut obs)?;
    Ok(Some(Built { world: w, victim: v, target, later, label, prelude }))
}

/// after the target: a peer sends a message, commits, and sends another message; the victim
/// will be handed these afterwards
fn later_events(w: &mut World, skip: usize, obs: &mut NoObserver) -> Result<Vec<Event>, Failure> {
    let start = w.relay.len();
    // first let the creator apply its own pending commit
    w.catch_up(0, obs)?;
    for m in w.actors() {
        if m != skip {
            w.catch_up(m, obs)?;
        }
    }
    w.apply_op(&Op::Msg { m: 0, kind: 2, at: 2, tag: 2 }, obs)?;
    w.apply_op(&Op::Data { m: 0, ts: 2, apply: Apply::Echo, change: DataChange::Description(1) }, obs)?;
    w.catch_up(0, obs)?;
    w.apply_op(&Op::Msg { m: 0, kind: 0, at: 0, tag: 0 }, obs)?;
    Ok(w.relay[start..].iter().map(|e| e.ev.clone()).collect())
}

fn raw_case(case: &Case, rep: &mut CaseReport) -> Result<(), Failure> {
    // all-or-nothing of the three explicit storage transactions
    let dir = crate::world::scratch_dir("c12raw");
    let base = dir.0.join("base.db");
    {
        let st = mdk_sqlite_storage::MdkSqliteStorage::new_unencrypted(&base).map_err(|e| Failure::new("setup-failed", e.to_string()))?;
        for g in 0..2u8 {
            for op in [
                sm::SOp::SaveGroup { g, n: g, name: 1, epoch: 1, state: 0, admins: 3, last: 1, img: 1, su: 1 },
                sm::SOp::ReplaceRelays { g, mask: 0b0111 },
                sm::SOp::SaveSecret { g, epoch: 0, val: 1 },
                sm::SOp::SaveSecret { g, epoch: 1, val: 2 },
                sm::SOp::SaveMessage { g, m: g, created: 0, processed: 0, epoch: 1, state: 1, content: 1, tag: 2, author: 0 },
                sm::SOp::WriteGroupData { g, kind: 1, val: 5 },
                sm::SOp::WriteGroupData { g, kind: 3, val: 6 },
                sm::SOp::WriteGroupData { g, kind: 6, val: 7 },
                sm::SOp::QueueProposal { g, r: 1, val: 3 },
                sm::SOp::AppendOwnLeaf { g, val: 4 },
                sm::SOp::WriteEpochKeys { g, epoch: 0, leaf: 1, val: 9 },
            ] {
                sm::apply_real(&st, &op, 0);
            }
        }
        sm::apply_real(&st, &sm::SOp::Snapshot { g: 0, name: 0 }, 0);
        sm::apply_real(&st, &sm::SOp::Snapshot { g: 0, name: 1 }, 0);
        // change the group after the snapshot
        for op in [
            sm::SOp::SaveGroup { g: 0, n: 0, name: 2, epoch: 2, state: 0, admins: 1, last: 0, img: 0, su: 0 },
            sm::SOp::ReplaceRelays { g: 0, mask: 0b1000 },
            sm::SOp::SaveSecret { g: 0, epoch: 2, val: 3 },
            sm::SOp::WriteGroupData { g: 0, kind: 1, val: 15 },
            sm::SOp::QueueProposal { g: 0, r: 2, val: 8 },
            sm::SOp::AppendOwnLeaf { g: 0, val: 14 },
        ] {
            sm::apply_real(&st, &op, 0);
        }
    }
    let op = match case.scenario {
        Scenario::RawSnapshot => sm::SOp::Snapshot { g: 0, name: 2 },
        Scenario::RawRollback => sm::SOp::Rollback { g: 0, name: 0 },
        _ => sm::SOp::ReplaceRelays { g: 0, mask: 0b0110 },
    };
    // optionally a call that the storage refuses comes first, on the same instance: a refused
    // call must leave nothing behind that affects the next one or what survives the process
    let refused: Option<sm::SOp> = match case.commit_kind % 4 {
        1 => Some(sm::SOp::Rollback { g: 0, name: 3 }),
        2 => Some(sm::SOp::Rollback { g: 1, name: 0 }),
        3 => Some(sm::SOp::ReplaceRelays { g: 3, mask: 0b0011 }),
        _ => None,
    };
    let run_refused = |st: &mdk_sqlite_storage::MdkSqliteStorage| -> Result<(), Failure> {
        if let Some(r) = &refused {
            let before = sm::dump_real(st);
            let res = sm::apply_real(st, r, 0);
            if res != serde_json::json!("ERR") {
                return Err(Failure::new("setup-failed", format!("{r:?} was expected to be refused, got {res}")));
            }
            if sm::dump_real(st) != before {
                return Err(Failure::new("refused-storage-call-had-an-effect", format!("{r:?} was refused, yet the store changed")));
            }
        }
        Ok(())
    };
    if refused.is_some() {
        rep.classes.push(format!("{:?}-after-a-refused-call", case.scenario));
    }
    let work = dir.0.join("work.db");
    // pre and post dumps
    copy_db(&base, &work)?;
    let (pre, post, k_total) = {
        let st = mdk_sqlite_storage::MdkSqliteStorage::new_unencrypted(&work).map_err(|e| Failure::new("setup-failed", e.to_string()))?;
        run_refused(&st)?;
        let pre = sm::dump_real(&st);
        install_counter();
        let r = sm::apply_real(&st, &op, 0);
        let k = TICKS.with(|t| t.get());
        uninstall();
        if r == serde_json::json!("ERR") {
            if let Some(rf) = &refused {
                return Err(Failure::new(
                    "refused-storage-call-poisoned-the-connection",
                    format!("{op:?} succeeds on a fresh instance, but fails on an instance that has just refused {rf:?}"),
                ));
            }
            return Err(Failure::new("setup-failed", format!("raw op {op:?} failed uninterrupted")));
        }
        let post = sm::dump_real(&st);
        // a completed call is durable: the process ends here, the file is reopened
        drop(st);
        let st2 = mdk_sqlite_storage::MdkSqliteStorage::new_unencrypted(&work)
            .map_err(|e| Failure::new("database-does-not-reopen-after-crash", format!("after the completed {op:?}: {e}")))?;
        let again = sm::dump_real(&st2);
        if again != post {
            let (key, got, want) = sm::first_difference(&again, &post).unwrap();
            return Err(Failure::new(
                "completed-call-is-not-durable",
                format!("{op:?}{} returned Ok; after ending the process and reopening the file `{key}` = {got}, the call had left it as {want}", refused.as_ref().map(|r| format!(" (right after the refused {r:?})")).unwrap_or_default()),
            ));
        }
        (pre, post, k)
    };
    if pre == post {
        return Err(Failure::new("setup-failed", "raw op changed nothing".to_string()));
    }
    for k in 0..k_total {
        copy_db(&base, &work)?;
        {
            let st = mdk_sqlite_storage::MdkSqliteStorage::new_unencrypted(&work).map_err(|e| Failure::new("setup-failed", e.to_string()))?;
            run_refused(&st)?;
            install_counter();
            ARMED.with(|a| a.set(Some(k)));
            let r = std::panic::catch_unwind(std::panic::AssertUnwindSafe(|| sm::apply_real(&st, &op, 0)));
            uninstall();
            if r.is_ok() {
                return Err(Failure::new("harness-error", format!("tick {k} of {k_total} was not reached")));
            }
            drop(st);
        }
        let st = mdk_sqlite_storage::MdkSqliteStorage::new_unencrypted(&work)
            .map_err(|e| Failure::new("database-does-not-reopen-after-crash", format!("{op:?} interrupted at tick {k}/{k_total}: {e}")))?;
        let d = sm::dump_real(&st);
        *rep.counters.entry("crash-points".into()).or_insert(0) += 1;
        if k > 0 && k + 1 < k_total {
            *rep.counters.entry("crash-points-strictly-inside".into()).or_insert(0) += 1;
        }
        let which = if d == pre {
            "pre"
        } else if d == post {
            "post"
        } else {
            let (key, got, want) = sm::first_difference(&d, &pre).unwrap();
            return Err(Failure::new(
                "storage-transaction-not-all-or-nothing",
                format!("{op:?} interrupted at storage tick {k} of {k_total}: after reopening `{key}` = {got}; before the call it was {want} (and the state is not the completed one either)"),
            ));
        };
        *rep.counters.entry(format!("raw-{:?}-recovered-as-{which}", case.scenario)).or_insert(0) += 1;
    }
    rep.classes.push(format!("{:?}-ticks-{}", case.scenario, k_total));
    rep.nontrivial = k_total > 2;
    Ok(())
}

pub fn exec(case: &Case, mode: Mode) -> Result<CaseReport, Failure> {
    let mut rep = CaseReport::default();
    if matches!(case.scenario, Scenario::RawSnapshot | Scenario::RawRollback | Scenario::RawRelays) {
        raw_case(case, &mut rep)?;
        rep.units = rep.counters.get("crash-points").copied().unwrap_or(0);
        return Ok(rep);
    }
    let Some(b) = build(case)? else {
        rep.classes.push("scenario-not-constructible".into());
        return Ok(rep);
    };
    APP_TARGET.with(|a| a.set(case.scenario == Scenario::App));
    let mut trace = vec![format!("scenario {:?}: {}", case.scenario, b.label)];
    let r = enumerate(case, &b, mode, &mut rep, &mut trace);
    rep.units = rep.counters.get("crash-points").copied().unwrap_or(0);
    if r.is_err() {
        let mut t = b.world.trace.clone();
        t.extend(trace);
        set_last_trace(t);
    }
    r?;
    Ok(rep)
}

fn enumerate(case: &Case, b: &Built, mode: Mode, rep: &mut CaseReport, trace: &mut Vec<String>) -> Result<(), Failure> {
    let w = &b.world;
    let v = b.victim;
    let gid = w.gid.clone();
    let keys = w.clients[v].keys.clone();
    let cfg = w.clients[v].cfg.clone();
    let base = w.clients[v].db_path.clone().ok_or_else(|| Failure::new("setup-failed", "victim has no database file"))?;
    let twin = w.dir.0.join("c12-twin.db");
    let work = w.dir.0.join("c12-work.db");
    let is_local = matches!(
        b.target,
        Target::CreateMessage | Target::SelfUpdate | Target::CreateGroup(..) | Target::AddMembers(..) | Target::RemoveMembers(..) | Target::UpdateData(..) | Target::LeaveGroup
    );

    // ---- uninterrupted twin
    copy_db(&base, &twin)?;
    let (k_total, expected_after_target, expected_final, twin_result) = {
        let mdk = open(&twin, &cfg).map_err(|e| Failure::new("setup-failed", e))?;
        for ev in &b.prelude {
            let _ = on_mdk!(&mdk, m => m.process_message(ev));
        }
        WATCH.with(|w| *w.borrow_mut() = Some((twin.clone(), vec![])));
        install_counter();
        let r = run_target(&mdk, &gid, &keys, &b.target);
        let k = TICKS.with(|t| t.get());
        uninstall();
        let hashes = WATCH.with(|w| w.borrow_mut().take()).map(|(_, v)| v).unwrap_or_default();
        let final_hash = file_hash(&twin);
        // landmarks: the file is untouched up to (and including) tick `first_write`, and
        // complete from tick `last_write` on
        FIRST_WRITE.with(|f| f.set(hashes.iter().position(|h| *h != hashes[0]).map(|p| p as u64 - 1).unwrap_or(k)));
        LAST_WRITE.with(|f| f.set(hashes.iter().position(|h| *h == final_hash).map(|p| p as u64).unwrap_or(k)));
        // a change seen at tick p was made by the statement that started at tick p-1
        let labels = WATCH_LABELS.with(|l| l.borrow().clone());
        let core = (1..hashes.len())
            .find(|&p| hashes[p] != hashes[p - 1] && !labels.get(p - 1).map(|l| l.starts_with("snapshot:")).unwrap_or(false))
            .map(|p| p as u64 - 1)
            .unwrap_or(k);
        FIRST_CORE_WRITE.with(|f| f.set(core));
        let after = observe(&mdk).map_err(|e| Failure::new("setup-failed", format!("twin unreadable: {e}")))?;
        for ev in &b.later {
            let _ = on_mdk!(&mdk, m => m.process_message(ev));
        }
        let fin = observe(&mdk).map_err(|e| Failure::new("setup-failed", format!("twin unreadable: {e}")))?;
        (k, after, fin, r)
    };
    trace.push(format!("uninterrupted: {:?}, {k_total} storage ticks", twin_result));
    if twin_result.is_err() {
        rep.classes.push(format!("target-fails-uninterrupted:{:?}:{}", case.scenario, twin_result.as_ref().err().map(|e| e.chars().take(60).collect::<String>()).unwrap_or_default()));
        return Ok(());
    }
    rep.classes.push(format!("{:?}", case.scenario));
    rep.classes.push(format!("{:?}-ticks-{}", case.scenario, (k_total / 10) * 10));
    let pre = {
        copy_db(&base, &work)?;
        let mdk = open(&work, &cfg).map_err(|e| Failure::new("setup-failed", e))?;
        for ev in &b.prelude {
            let _ = on_mdk!(&mdk, m => m.process_message(ev));
        }
        observe(&mdk).map_err(|e| Failure::new("setup-failed", e))?
    };

    let ks: Vec<u64> = if case.stride == 0 {
        (0..k_total).collect()
    } else {
        (0..k_total).filter(|k| *k < 3 || *k + 3 >= k_total || k % (case.stride as u64 + 1) == 0).collect()
    };
    // one more crash point: right after the call's last storage step, before it returns
    let ks: Vec<u64> = ks.into_iter().chain(std::iter::once(k_total)).collect();
    for k in ks {
        copy_db(&base, &work)?;
        if k == k_total {
            let mdk = open(&work, &cfg).map_err(|e| Failure::new("setup-failed", e))?;
            for ev in &b.prelude {
                let _ = on_mdk!(&mdk, m => m.process_message(ev));
            }
            let r = run_target(&mdk, &gid, &keys, &b.target);
            if r.is_err() {
                return Err(Failure::new("harness-error", format!("{} answered {r:?} on the work copy but succeeded on the twin", b.label)));
            }
            drop(mdk);
            *rep.counters.entry("crash-points-after-the-last-step".into()).or_insert(0) += 1;
        } else if case.abort_in_child {
            // a real process death: abort() in a child, hot journal and all
            match run_in_child(&work, k, &gid, &keys, &b.target, &b.prelude) {
                Ok(true) => {
                    *rep.counters.entry("crash-points-by-abort-in-child-process".into()).or_insert(0) += 1;
                    let journal = PathBuf::from(format!("{}-journal", work.display()));
                    if journal.exists() {
                        *rep.counters.entry("hot-journals-left-behind".into()).or_insert(0) += 1;
                    }
                }
                Ok(false) => return Err(Failure::new("harness-error", format!("child did not die at tick {k} of {k_total} in {}", b.label))),
                Err(e) => return Err(Failure::new("harness-error", format!("child process: {e}"))),
            }
        } else {
            let mdk = open(&work, &cfg).map_err(|e| Failure::new("setup-failed", e))?;
            for ev in &b.prelude {
                let _ = on_mdk!(&mdk, m => m.process_message(ev));
            }
            install_counter();
            ARMED.with(|a| a.set(Some(k)));
            let r = std::panic::catch_unwind(std::panic::AssertUnwindSafe(|| run_target(&mdk, &gid, &keys, &b.target)));
            uninstall();
            if r.is_ok() {
                return Err(Failure::new("harness-error", format!("tick {k} of {k_total} was not reached in {}", b.label)));
            }
            drop(mdk); // the process is gone: the connection is abandoned
        }
        *rep.counters.entry("crash-points".into()).or_insert(0) += 1;
        if k > 0 && k + 1 < k_total {
            *rep.counters.entry("crash-points-strictly-inside".into()).or_insert(0) += 1;
            rep.nontrivial = true;
        }
        let ctx = format!("{} interrupted at storage tick {k} of {k_total}", b.label);
        // ---- recovery
        let mdk = open(&work, &cfg).map_err(|e| Failure::new("database-does-not-reopen-after-crash", format!("{ctx}: {e}")))?;
        let reopened = observe(&mdk).map_err(|e| Failure::new("group-does-not-load-after-crash", format!("{ctx}: {e}")))?;
        let phase = if reopened == pre {
            "nothing-persisted"
        } else if reopened == expected_after_target {
            "everything-persisted"
        } else {
            "partially-persisted"
        };
        // the interrupted event again (local calls are retried), then everything later
        let retry = run_target(&mdk, &gid, &keys, &b.target);
        let mut retry_note = format!("{retry:?}");
        if is_local {
            // a local call may have staged its pending commit before dying: the documented way
            // out is clear_pending_commit and retry
            let mut ok = retry.is_ok();
            if !ok && matches!(b.target, Target::SelfUpdate | Target::AddMembers(..) | Target::RemoveMembers(..) | Target::UpdateData(..)) {
                let _ = on_mdk!(&mdk, m => m.clear_pending_commit(&gid));
                let again = run_target(&mdk, &gid, &keys, &b.target);
                retry_note = format!("{retry_note}, after clear_pending_commit: {again:?}");
                ok = again.is_ok();
            }
            if matches!(b.target, Target::CreateGroup(..)) {
                ok = ok || phase == "everything-persisted";
            }
            if !ok {
                return Err(Failure::new(
                    "local-call-cannot-be-retried-after-crash",
                    format!("{ctx}: after reopening ({phase}) the call answers {retry_note}"),
                ));
            }
            // the store must be coherent: every group loads and mirrors its MLS state
            let after = observe(&mdk).map_err(|e| Failure::new("group-does-not-load-after-crash", format!("{ctx}: after the retry: {e}")))?;
            for (g, f) in &after.groups {
                if let Some(l) = &f.level {
                    if l.record.state == "active" {
                        if let Some(d) = crate::oracles::mirror_mismatch(l) {
                            let fw = FIRST_WRITE.with(|f| f.get());
                            let lw = LAST_WRITE.with(|f| f.get());
                            let between = k > fw && k < lw;
                            let detail = format!("{ctx} (first durable write at tick {fw}, last at tick {lw}): group {}: {d}", &g[..8]);
                            if between && matches!(b.target, Target::CreateGroup(..)) {
                                // listed: create_group writes the record and the relays separately
                                if mode == Mode::Strict {
                                    return Err(Failure::new("crash:O31-create-group-is-not-atomic", detail));
                                }
                                rep.excused.push("O31-create-group-is-not-atomic".into());
                                *rep.counters.entry("excused:O31-create-group-is-not-atomic".into()).or_insert(0) += 1;
                                continue;
                            }
                            return Err(Failure::new("record-does-not-mirror-mls-state-after-crash", detail));
                        }
                    }
                }
            }
            *rep.counters.entry(format!("recovered:{phase}")).or_insert(0) += 1;
            continue;
        }
        // "followed by all later events" includes the case that nothing follows: a repeated call
        // that answers like the uninterrupted one must leave the uninterrupted run's state
        let mut healed_only_by_later_events: Option<String> = None;
        if retry.is_ok() {
            // whatever else is listed for this call: a call that returned Ok leaves every active
            // group's record mirroring its MLS state (no listed finding is about that)
            let now = observe(&mdk).map_err(|e| Failure::new("group-does-not-load-after-crash", format!("{ctx}: after re-processing: {e}")))?;
            for (g, f) in &now.groups {
                if let Some(l) = &f.level {
                    if l.record.state == "active" {
                        if let Some(d) = crate::oracles::mirror_mismatch(l) {
                            return Err(Failure::new(
                                "record-does-not-mirror-mls-state-after-crash",
                                format!("{ctx}: reopened with {phase}; the repeated call answered {retry_note}, and right after it group {}: {d}", &g[..8.min(g.len())]),
                            ));
                        }
                    }
                }
            }
        }
        if retry.is_ok() && retry == twin_result {
            let now = observe(&mdk).map_err(|e| Failure::new("group-does-not-load-after-crash", format!("{ctx}: after re-processing: {e}")))?;
            if now != expected_after_target {
                healed_only_by_later_events = Some(describe_diff(&now, &expected_after_target));
            }
        }
        for ev in &b.later {
            let _ = on_mdk!(&mdk, m => m.process_message(ev));
        }
        let fin = observe(&mdk).map_err(|e| Failure::new("group-does-not-load-after-crash", format!("{ctx}: after re-processing: {e}")))?;
        // (a listed finding that cannot be what happened here - O32 has one precise answer - does
        // not stand in the way)
        let listed_here = classify_finding(case.scenario, &b.target).filter(|key| !key.starts_with("O32") || retry_note.contains("welcome record missing for processed welcome"));
        if fin == expected_final && healed_only_by_later_events.is_some() && listed_here.is_none() {
            return Err(Failure::new(
                "crash-not-recoverable",
                format!("{ctx}: reopened with {phase}; the repeated call answered {retry_note} like the uninterrupted one, yet right after it the client differs from the uninterrupted run: {} (only the later events of other members bring it back)", healed_only_by_later_events.unwrap_or_default()),
            ));
        }
        if fin == expected_final {
            *rep.counters.entry(format!("recovered:{phase}")).or_insert(0) += 1;
            if std::env::var("VCHECK_C12_DEBUG").is_ok() {
                println!("  tick {k}/{k_total} [{}]: recovered ({phase}; retry {retry_note})", WATCH_LABELS.with(|l| l.borrow().get(k as usize).copied().unwrap_or("?")));
            }
            continue;
        }
        // ---- not the uninterrupted run's state: a listed finding?
        let diff = describe_diff(&fin, &expected_final);
        let first_write = FIRST_WRITE.with(|f| f.get());
        let last_write = LAST_WRITE.with(|f| f.get());
        // a crash at tick k happens before the statement of tick k runs: the file then holds
        // what the uninterrupted run held at tick k
        let first_core_write = FIRST_CORE_WRITE.with(|f| f.get());
        let zone = if k <= first_write {
            "before-the-first-write"
        } else if k >= last_write {
            "after-the-last-write"
        } else if k <= first_core_write {
            // only the storage layer's own snapshot of the group has been written so far: none of
            // the listed findings (they are all about OpenMLS / mdk-core writes that follow) applies
            "after-the-snapshot-before-any-other-write"
        } else {
            "between-first-and-last-write"
        };
        let finding = if zone == "between-first-and-last-write" {
            classify_finding(case.scenario, &b.target).filter(|key| {
                // O32 is one precise hole (the wrapper id is recorded as processed before the
                // welcome row exists); any other way of not recovering an interrupted join is not it
                !key.starts_with("O32") || retry_note.contains("welcome record missing for processed welcome")
            })
        } else if !b.prelude.is_empty() && zone != "after-the-last-write" && phase == "nothing-persisted" {
            // commit-with-rollback: the reopened instance has forgotten the timestamp of the
            // commit it had applied, so the better commit can no longer displace it (listed for
            // C11 as O8; here it is what "reopen and process the event again" runs into)
            Some("O8-restart-forgets-commit-timestamps")
        } else {
            None
        };
        let dbg = if let Target::Deliver(ev) = &b.target {
            let rec = on_mdk!(&mdk, m => m.provider.storage().find_processed_message_by_event_id(&ev.id)).ok().flatten();
            let snaps = on_mdk!(&mdk, m => m.provider.storage().list_group_snapshots(&gid)).unwrap_or_default();
            format!(" [record {:?}, snapshots {:?}, event {}]", rec.map(|r| (r.state, r.epoch)), snaps.iter().map(|(n, _)| n[n.len() - 8..].to_string()).collect::<Vec<_>>(), &ev.id.to_hex()[56..])
        } else {
            String::new()
        };
        let detail = format!("{ctx}{dbg} ({zone}: the call's first durable write is at tick {first_write}, its last at tick {last_write}): reopened with {phase}; re-offering the event answered {retry_note}; after all later events the client differs from the uninterrupted run: {diff}");
        if std::env::var("VCHECK_C12_DEBUG").is_ok() {
            println!("  tick {k}/{k_total} [{}]: NOT recovered, zone {zone}, finding {finding:?} (first write {first_write}, first core write {first_core_write}, last {last_write}; retry {retry_note})", WATCH_LABELS.with(|l| l.borrow().get(k as usize).copied().unwrap_or("?")));
        }
        match (finding, mode) {
            (Some(key), Mode::Normal) => {
                rep.excused.push(key.to_string());
                *rep.counters.entry(format!("excused:{key}")).or_insert(0) += 1;
            }
            (Some(key), Mode::Strict) => return Err(Failure::new(&format!("crash:{key}"), detail)),
            (None, _) => return Err(Failure::new("crash-not-recoverable", detail)),
        }
    }
    Ok(())
}

fn describe_diff(a: &Observed, b: &Observed) -> String {
    let mut out = vec![];
    for ((ga, fa), (gb, fb)) in a.groups.iter().zip(b.groups.iter()) {
        if ga != gb {
            out.push("different group sets".to_string());
        } else if fa != fb {
            out.push(format!("group {}: {}", &ga[..8], crate::oracles::diff_full(fb, fa)));
        }
    }
    if a.groups.len() != b.groups.len() {
        out.push(format!("{} vs {} groups", a.groups.len(), b.groups.len()));
    }
    out.join("; ")
}

/// Listed findings. All of them are "the call is not one transaction": OpenMLS persists its
/// own state (ratchet generation, merged tree, ...) with separate autocommitted statements
/// while mdk-core records its part later. They are only ever considered for crash points
/// strictly between the call's first and last durable write (see `zone` at the call site).
fn classify_finding(scenario: Scenario, t: &Target) -> Option<&'static str> {
    use Scenario as S;
    match (scenario, t) {
        (S::App, Target::Deliver(_)) => Some("O18-message-lost-when-crash-hits-after-ratchet-step"),
        // calls that decrypt a handshake message of a peer (its ratchet step is persisted first)
        // and / or merge a commit (a peer's, the own one, the auto-commit of a leave)
        (S::Commit | S::CommitWithRollback | S::OwnCommitEcho | S::CommitEvictingVictim | S::ProposalAtAdmin | S::Proposal, Target::Deliver(_)) => {
            Some("O17-commit-processing-is-not-atomic")
        }
        (S::MergePending, Target::Merge) => Some("O17-commit-processing-is-not-atomic"),
        (_, Target::AcceptWelcome(..)) => Some("O32-accept-welcome-is-not-atomic"),
        // confirming an own message, storing an invitation: no OpenMLS ratchet or merge is
        // involved, nothing is excused
        _ => None,
    }
}

fn strategy(tier: Tier) -> BoxedStrategy<Case> {
    use Scenario as S;
    let scen = prop::sample::select(vec![
        S::App, S::Proposal, S::ProposalAtAdmin, S::Commit, S::Commit, S::CommitWithRollback, S::OwnCommitEcho, S::MergePending,
        S::CommitEvictingVictim, S::ProcessWelcome, S::AcceptWelcome, S::CreateGroup, S::CreateMessage, S::OwnMessageEcho, S::SelfUpdateCall, S::AddMembersCall, S::RemoveMembersCall, S::UpdateGroupDataCall, S::LeaveGroupCall, S::RejoinWelcome,
        S::RawSnapshot, S::RawRollback, S::RawRelays,
    ]);
    let stride: BoxedStrategy<u8> = match tier {
        Tier::Quick => Just(0u8).boxed(),
        Tier::Thorough => Just(0u8).boxed(),
    };
    let child: BoxedStrategy<bool> = match tier {
        Tier::Quick => prop::bool::weighted(0.1).boxed(),
        Tier::Thorough => prop::bool::weighted(0.3).boxed(),
    };
    (scen, 2u8..5, 0u8..3, 0u8..3, 0u8..4, stride, child)
        .prop_map(|(scenario, members, warm_commits, warm_messages, commit_kind, stride, abort_in_child)| Case {
            scenario,
            members,
            warm_commits,
            warm_messages,
            commit_kind,
            // a child per tick is slow: sample the ticks there
            stride: if abort_in_child { 4 } else { stride },
            abort_in_child,
        })
        .boxed()
}

pub fn main(args: &Args) -> i32 {
    let cases = match args.tier {
        Tier::Quick => 200,
        Tier::Thorough => 16 * 300,
    };
    let tier = args.tier;
    let spec = Spec {
        id: "C12",
        level: "fault_enumeration",
        rule: "generated scenarios (operation class x group size 2..4 x warm-up commits/messages x commit kind): create_group, create_message, self_update, add_members, remove_members, update_group_data (name / relays / Nostr group id), leave_group, merge_pending_commit, process_message for application / leave proposal (admin and non-admin receiver) / commit (self-update, id rotation, add, relay change, removal of the victim) / better competing commit with rollback / own commit echo, process_welcome, accept_welcome (also at a former member that is invited again), and the raw snapshot / rollback / relay-replacement transactions. For each scenario EVERY storage tick k of the call is enumerated, plus the point right after the last one (the call has done everything but has not returned): the call runs on a fresh copy of the victim's database with the hook armed to panic at k, the instance is dropped, the file reopened. Oracle: the database opens, every group loads, the interrupted event offered again plus all later events ends in the uninterrupted twin's exact observable state (local calls: the retry succeeds and every active group mirrors its MLS state); raw transactions: the dump equals the pre- or the post-state. evaluations = crash points executed; non-trivial = a crash strictly inside a multi-statement operation; distinct = distinct scenarios".into(),
        assumptions: vec![
            "process death is simulated by unwinding out of the call and dropping the instance (the connection is closed, an open transaction is rolled back exactly as a hot journal would be on reopen); power loss / torn pages are out of scope".into(),
            "ticks sit at every with_connection call and at every statement boundary of the snapshot / restore / relay transactions (hook commits in MANIFEST.hooks)".into(),
            "every k < K is run for every generated scenario (exhaustive per scenario); the space of scenarios is sampled".into(),
        ],
        min_nontrivial: 8,
        max_shrink_iters: 40,
        exhaustive: false,
    };
    let _ = BTreeMap::<u8, u8>::new();
    drive(args, spec, RunPlan { cases, workers: 16 }, || strategy(tier), exec)
}


// ---------------------------------------------------------------------------------------------
// real process death: the same call in a child process that abort()s at tick k
// ---------------------------------------------------------------------------------------------

#[derive(Serialize, Deserialize)]
struct ChildJob {
    db: PathBuf,
    k: u64,
    gid_hex: String,
    secret_key_hex: String,
    target: Target,
    #[serde(default)]
    prelude: Vec<Event>,
}

/// entry point of `vcheck __crash_child <job.json>`
pub fn child_main(job_path: &str) -> i32 {
    let Ok(txt) = std::fs::read_to_string(job_path) else { return 3 };
    let Ok(job) = serde_json::from_str::<ChildJob>(&txt) else { return 3 };
    let Ok(mdk) = open(&job.db, &Cfg::default()) else { return 3 };
    let Ok(keys) = nostr::Keys::parse(&job.secret_key_hex) else { return 3 };
    let gid = GroupId::from_slice(&hex::decode(&job.gid_hex).unwrap_or_default());
    for ev in &job.prelude {
        let _ = on_mdk!(&mdk, m => m.process_message(ev));
    }
    TICKS.with(|t| t.set(0));
    let k = job.k;
    mdk_sqlite_storage::verif::set_tick_handler(Some(Rc::new(move |_l: &'static str| {
        let n = TICKS.with(|t| {
            let v = t.get();
            t.set(v + 1);
            v
        });
        if n == k {
            // die with whatever has been written: no destructors, no rollback, journal left behind
            unsafe { libc::abort() }
        }
    })));
    let _ = run_target(&mdk, &gid, &keys, &job.target);
    0 // the tick was not reached
}

fn run_in_child(db: &Path, k: u64, gid: &GroupId, keys: &nostr::Keys, target: &Target, prelude: &[Event]) -> Result<bool, String> {
    let job = ChildJob {
        db: db.to_path_buf(),
        k,
        gid_hex: hex::encode(gid.as_slice()),
        secret_key_hex: keys.secret_key().to_secret_hex(),
        target: target.clone(),
        prelude: prelude.to_vec(),
    };
    let job_path = PathBuf::from(format!("{}.job.json", db.display()));
    std::fs::write(&job_path, serde_json::to_string(&job).map_err(|e| e.to_string())?).map_err(|e| e.to_string())?;
    let exe = std::env::current_exe().map_err(|e| e.to_string())?;
    let st = std::process::Command::new(exe)
        .arg("__crash_child")
        .arg(&job_path)
        .stdout(std::process::Stdio::null())
        .stderr(std::process::Stdio::null())
        .status()
        .map_err(|e| e.to_string())?;
    let _ = std::fs::remove_file(&job_path);
    // killed by SIGABRT => no exit code
    Ok(st.code().is_none())
}


// ---- used by C14: the same runs, returning the secrets of the scenario's world
pub fn exec_for_logs(case: &Case) -> (crate::needles::Needles, Result<CaseReport, Failure>) {
    let mut needles = crate::needles::Needles::default();
    if matches!(case.scenario, Scenario::RawSnapshot | Scenario::RawRollback | Scenario::RawRelays) {
        let mut rep = CaseReport::default();
        let r = raw_case(case, &mut rep).map(|_| rep);
        for g in 0..sm::N_GROUPS {
            needles.add_bytes_with_debug_list(sm::gid(g).as_slice(), "MLS group id");
            needles.add_bytes_with_debug_list(&sm::nid(g), "Nostr group id");
        }
        return (needles, r);
    }
    match build(case) {
        Ok(Some(b)) => {
            crate::props::c14::collect_secret_needles(&b.world, &mut needles);
            let mut rep = CaseReport::default();
            let mut trace = vec![];
            let r = enumerate(case, &b, Mode::Normal, &mut rep, &mut trace).map(|_| rep);
            crate::props::c14::collect_secret_needles(&b.world, &mut needles);
            (needles, r)
        }
        Ok(None) => (needles, Ok(CaseReport::default())),
        Err(f) => (needles, Err(f)),
    }
}

pub fn strategy_for_logs() -> BoxedStrategy<Case> {
    strategy(Tier::Quick).prop_map(|mut c| {
        c.stride = 5;
        c.abort_in_child = false;
        c
    }).boxed()
}
