//! C15 — wire formats round-trip and parsers accept nothing ambiguous.

use std::collections::BTreeSet;

use base64::Engine;
use mdk_core::extension::NostrGroupDataExtension;
use mdk_core::groups::NostrGroupConfigData;
use nostr::{Event, EventBuilder, Keys, Kind, PublicKey, RelayUrl, Tag, TagKind};
use proptest::prelude::*;
use serde::{Deserialize, Serialize};

use crate::on_mdk;
use crate::runner::{Args, CaseReport, Failure, Mode, RunPlan, Spec, Tier, drive};
use crate::world::{BackendKind, Cfg, RollbackRecorder, open_client_mdk};

#[derive(Clone, Debug, PartialEq, Eq, Hash, Serialize, Deserialize)]
pub struct ExtValue {
    pub version: u16,
    pub gid: [u8; 32],
    pub name: String,
    pub description: String,
    pub admins: Vec<u8>,
    pub relays: Vec<u8>,
    pub present: u8,
    pub seed: u8,
}

#[derive(Clone, Debug, PartialEq, Eq, Hash, Serialize, Deserialize)]
pub enum ExtMut {
    AppendBytes(u8),
    Truncate(u8),
    VersionZero,
    NameNotUtf8,
    DescriptionNotUtf8,
    BadRelayUrl,
    RelayNotUtf8,
    /// image field (0..4) given a length that is neither 0 nor the fixed one
    ImageFieldLength(u8, u8),
    /// a length prefix that promises more than there is
    LengthPrefixTooLong(u8),
    /// admin vector whose byte length is not a multiple of 32
    AdminVectorRagged,
    /// a relay that parses although its normalised spelling does not ("wss:a/b://c")
    RelayNotNormalisable,
    /// the admin list (false) / relay list (true) announces a byte length that ends inside its
    /// last element; all bytes of the elements are there
    ListPrefixEndsInsideElement(bool),
}

#[derive(Clone, Debug, PartialEq, Eq, Hash, Serialize, Deserialize)]
pub enum Case {
    Extension { v: ExtValue, muts: Vec<ExtMut> },
    KeyPackage { relays: Vec<u8>, protected: bool, muts: Vec<u8> },
    Welcome { name: String, muts: Vec<u8> },
    Imeta { mime: u8, filename: String, size: u16, muts: Vec<u8> },
}

fn varint(n: usize, out: &mut Vec<u8>) {
    if n < 64 {
        out.push(n as u8);
    } else if n < 16384 {
        out.extend(((n as u16) | 0x4000).to_be_bytes());
    } else {
        out.extend(((n as u32) | 0x8000_0000).to_be_bytes());
    }
}
fn vbytes(b: &[u8], out: &mut Vec<u8>) {
    varint(b.len(), out);
    out.extend(b);
}

struct Raw {
    version: u16,
    gid: [u8; 32],
    name: Vec<u8>,
    description: Vec<u8>,
    admins: Vec<u8>,
    relays: Vec<Vec<u8>>,
    image: [Vec<u8>; 4],
}

impl Raw {
    /// an independent encoder of the documented layout (differential against the library's)
    fn encode(&self) -> Vec<u8> {
        let mut o = vec![];
        o.extend(self.version.to_be_bytes());
        o.extend(self.gid);
        vbytes(&self.name, &mut o);
        vbytes(&self.description, &mut o);
        vbytes(&self.admins, &mut o);
        let mut r = vec![];
        for x in &self.relays {
            vbytes(x, &mut r);
        }
        vbytes(&r, &mut o);
        for f in &self.image {
            vbytes(f, &mut o);
        }
        o
    }
}

fn admin_pk(i: u8) -> PublicKey {
    Keys::new(nostr::SecretKey::from_slice(&[i + 1; 32]).unwrap()).public_key()
}

fn build_ext(v: &ExtValue) -> (NostrGroupDataExtension, Raw) {
    let admins: BTreeSet<PublicKey> = v.admins.iter().map(|a| admin_pk(a % 40)).collect();
    let relays: BTreeSet<RelayUrl> = v.relays.iter().map(|r| RelayUrl::parse(&format!("wss://relay-{}.example.org/path{}", r % 50, r / 50)).unwrap()).collect();
    let f = |tag: u8, n: usize| -> Vec<u8> { (0..n).map(|i| (i as u8).wrapping_mul(31).wrapping_add(v.seed).wrapping_add(tag)).collect() };
    let hash = if v.present & 1 != 0 { Some(<[u8; 32]>::try_from(f(1, 32)).unwrap()) } else { None };
    let key = if v.present & 2 != 0 { Some(<[u8; 32]>::try_from(f(2, 32)).unwrap()) } else { None };
    let nonce = if v.present & 4 != 0 { Some(<[u8; 12]>::try_from(f(3, 12)).unwrap()) } else { None };
    let upload = if v.present & 8 != 0 { Some(<[u8; 32]>::try_from(f(4, 32)).unwrap()) } else { None };
    let mut ext = NostrGroupDataExtension::new(v.name.clone(), v.description.clone(), admins.clone(), relays.clone(), hash, key, nonce, upload);
    ext.version = v.version.max(1);
    ext.nostr_group_id = v.gid;
    let raw = Raw {
        version: ext.version,
        gid: v.gid,
        name: v.name.clone().into_bytes(),
        description: v.description.clone().into_bytes(),
        admins: admins.iter().flat_map(|p| p.to_bytes()).collect(),
        relays: relays.iter().map(|r| r.to_string().into_bytes()).collect(),
        image: [
            hash.map(|h| h.to_vec()).unwrap_or_default(),
            key.map(|h| h.to_vec()).unwrap_or_default(),
            nonce.map(|h| h.to_vec()).unwrap_or_default(),
            upload.map(|h| h.to_vec()).unwrap_or_default(),
        ],
    };
    (ext, raw)
}

fn extension_case(v: &ExtValue, muts: &[ExtMut], rep: &mut CaseReport) -> Result<(), Failure> {
    let (ext, raw) = build_ext(v);
    let bytes = ext.verif_to_tls_bytes().map_err(|e| Failure::new("extension-does-not-serialise", format!("{v:?}: {e}")))?;
    let mine = raw.encode();
    if bytes != mine {
        return Err(Failure::new(
            "extension-encoding-differs-from-documented-layout",
            format!("library {} bytes vs reference encoder {} bytes for {v:?}", bytes.len(), mine.len()),
        ));
    }
    let back = NostrGroupDataExtension::verif_from_tls_bytes(&bytes).map_err(|e| Failure::new("extension-does-not-parse-back", format!("{v:?}: {e}")))?;
    if back != ext {
        return Err(Failure::new("extension-round-trip-changed-the-value", format!("{ext:?} -> {back:?}")));
    }
    rep.classes.push(format!("extension:presence-{:04b}", v.present & 15));
    if v.name.chars().any(|c| c.len_utf8() > 1) || v.name.contains('\0') {
        rep.classes.push("extension:non-ascii-or-nul-name".into());
    }
    if v.version > 2 {
        rep.classes.push("extension:future-version".into());
    }
    for m in muts {
        let mut r = Raw { version: raw.version, gid: raw.gid, name: raw.name.clone(), description: raw.description.clone(), admins: raw.admins.clone(), relays: raw.relays.clone(), image: raw.image.clone() };
        let mutated: Vec<u8> = match m {
            ExtMut::AppendBytes(n) => {
                let mut b = bytes.clone();
                b.extend(std::iter::repeat(0u8).take(1 + *n as usize % 9));
                b
            }
            ExtMut::Truncate(n) => {
                let k = 1 + (*n as usize * (bytes.len() - 1)) / 256;
                bytes[..bytes.len() - k.min(bytes.len())].to_vec()
            }
            ExtMut::VersionZero => {
                r.version = 0;
                r.encode()
            }
            ExtMut::NameNotUtf8 => {
                r.name = vec![b'a', 0xFF, 0xFE, b'b'];
                r.encode()
            }
            ExtMut::DescriptionNotUtf8 => {
                r.description = vec![0xC3, 0x28];
                r.encode()
            }
            ExtMut::RelayNotNormalisable => {
                r.relays.push(b"wss:a/b://c".to_vec());
                r.encode()
            }
            ExtMut::BadRelayUrl => {
                r.relays.push(b"http//not a relay url".to_vec());
                r.encode()
            }
            ExtMut::RelayNotUtf8 => {
                r.relays.push(vec![0xFF, 0xFF, 0xFF]);
                r.encode()
            }
            ExtMut::ImageFieldLength(f, n) => {
                let fixed = [32usize, 32, 12, 32][*f as usize % 4];
                let mut len = 1 + (*n as usize % 47);
                if len == fixed {
                    len += 1;
                }
                r.image[*f as usize % 4] = vec![7u8; len];
                r.encode()
            }
            ExtMut::LengthPrefixTooLong(k) => {
                // bump the name's length prefix
                let mut b = bytes.clone();
                let off = 34;
                if b[off] < 63 {
                    b[off] += 1 + k % 8;
                    if b[off] >= 64 {
                        b[off] = 63;
                    }
                    b
                } else {
                    continue;
                }
            }
            ExtMut::AdminVectorRagged => {
                r.admins.push(1);
                r.encode()
            }
            ExtMut::ListPrefixEndsInsideElement(relays) => {
                // hand-assembled: same bytes as the honest encoding, only the list's own length
                // prefix is one byte short of the truth
                let mut o = vec![];
                o.extend(r.version.to_be_bytes());
                o.extend(r.gid);
                vbytes(&r.name, &mut o);
                vbytes(&r.description, &mut o);
                let mut rl = vec![];
                for x in &r.relays {
                    vbytes(x, &mut rl);
                }
                if *relays {
                    if rl.len() < 2 {
                        continue;
                    }
                    vbytes(&r.admins, &mut o);
                    varint(rl.len() - 1, &mut o);
                    o.extend(&rl);
                } else {
                    if r.admins.len() < 32 {
                        continue;
                    }
                    varint(r.admins.len() - 1, &mut o);
                    o.extend(&r.admins);
                    vbytes(&rl, &mut o);
                }
                for f in &r.image {
                    vbytes(f, &mut o);
                }
                o
            }
        };
        if mutated == bytes {
            continue;
        }
        *rep.counters.entry("extension-mutants".into()).or_insert(0) += 1;
        rep.classes.push(format!("extension-mutant:{}", format!("{m:?}").split('(').next().unwrap_or("")));
        match std::panic::catch_unwind(|| NostrGroupDataExtension::verif_from_tls_bytes(&mutated)) {
            Err(_) => return Err(Failure::new("panic", format!("extension parser panicked on {m:?} of {v:?}"))),
            Ok(Ok(parsed)) => {
                // LengthPrefixTooLong may by chance produce another well-formed value: accept only
                // if it round-trips to exactly these bytes (then it is simply another valid value)
                // (the admins decode to a set: bytes that list them in another order than the
                // encoder's are the same value in a non-canonical spelling, which is not judged)
                let again = parsed.verif_to_tls_bytes().unwrap_or_default();
                let same_value_same_size = again.len() == mutated.len()
                    && NostrGroupDataExtension::verif_from_tls_bytes(&again).map(|p2| format!("{p2:?}") == format!("{parsed:?}")).unwrap_or(false);
                if matches!(m, ExtMut::LengthPrefixTooLong(_) | ExtMut::Truncate(_)) && (again == mutated || same_value_same_size) {
                    rep.classes.push("extension-mutant-was-another-valid-encoding".into());
                    continue;
                }
                return Err(Failure::new(
                    "extension-parser-accepted-an-ambiguous-encoding",
                    format!("{m:?} of {v:?} was accepted as {parsed:?} [{} bytes in: {}; re-encoded {} bytes: {}]", mutated.len(), hex::encode(&mutated), again.len(), hex::encode(&again)),
                ));
            }
            Ok(Err(_)) => {}
        }
    }
    rep.nontrivial = true;
    Ok(())
}

fn mem() -> Result<crate::world::AnyMdk, Failure> {
    open_client_mdk(BackendKind::Mem, None, &Cfg::default(), std::sync::Arc::new(RollbackRecorder::default())).map_err(|e| Failure::new("setup-failed", e))
}

fn key_package_case(relays: &[u8], protected: bool, muts: &[u8], rep: &mut CaseReport) -> Result<(), Failure> {
    let a = mem()?;
    let b = mem()?;
    let keys = Keys::generate();
    let other = Keys::generate();
    let pk = keys.public_key();
    let urls: Vec<RelayUrl> = relays.iter().map(|r| RelayUrl::parse(&format!("wss://kp-{}.example.net", r % 30)).unwrap()).collect();
    let urls = if urls.is_empty() { vec![RelayUrl::parse("wss://kp.example.net").unwrap()] } else { urls };
    let (content, tags, hash_ref) = on_mdk!(&a, m => m.create_key_package_for_event_with_options(&pk, urls.clone(), protected))
        .map_err(|e| Failure::new("key-package-not-created", e.to_string()))?;
    let ev = EventBuilder::new(Kind::MlsKeyPackage, content.clone()).tags(tags.clone()).sign_with_keys(&keys).map_err(|e| Failure::new("setup-failed", e.to_string()))?;
    // round trip: another client parses it; same reference, same identity
    let kp = on_mdk!(&b, m => m.parse_key_package(&ev)).map_err(|e| Failure::new("own-key-package-refused", e.to_string()))?;
    let cred = openmls::prelude::BasicCredential::try_from(kp.leaf_node().credential().clone()).map_err(|e| Failure::new("key-package-credential", e.to_string()))?;
    if cred.identity() != pk.to_bytes() {
        return Err(Failure::new("key-package-identity-changed", "parsed identity differs from the author".to_string()));
    }
    let i_tag = tags.iter().find(|t| t.kind() == TagKind::i()).and_then(|t| t.content()).unwrap_or("").to_string();
    let parsed_ref = on_mdk!(&b, m => kp.hash_ref(openmls_traits::OpenMlsProvider::crypto(&m.provider))).map_err(|e| Failure::new("key-package-ref", e.to_string()))?;
    if hex::encode(parsed_ref.as_slice()) != i_tag {
        return Err(Failure::new("key-package-reference-changed", format!("i tag {i_tag} vs parsed {}", hex::encode(parsed_ref.as_slice()))));
    }
    let _ = hash_ref;
    rep.classes.push(format!("key-package:{}-relays{}", urls.len().min(4), if protected { "-protected" } else { "" }));
    // the listed ambiguities must be refused
    for m in muts {
        let t: Vec<Tag> = tags.clone();
        let par = (m / 18) as usize;
        let (ev2, what): (Event, &str) = match m % 18 {
            12 => {
                // a proper prefix of the real reference (1, 2, 4, 8, 16, 24, 31 bytes ...)
                let n = [1usize, 2, 4, 8, 16, 24, 31, 30, 12, 3, 5, 6, 7, 9, 10][par % 15];
                (sign(Kind::MlsKeyPackage, &content, set_tag(&t, "i", &i_tag[..(2 * n).min(i_tag.len())]), &keys), "i tag is only a prefix of the real reference")
            }
            13 => (sign(Kind::MlsKeyPackage, &content, set_tag(&t, "i", &format!("{i_tag}{}", "ab".repeat(1 + par % 8))), &keys), "i tag is the real reference plus extra bytes"),
            14 => {
                let mut raw = hex::decode(&i_tag).unwrap_or_default();
                if !raw.is_empty() {
                    let at = [0usize, raw.len() - 1, raw.len() / 2][par % 3];
                    raw[at] ^= 1 << (par % 8);
                }
                (sign(Kind::MlsKeyPackage, &content, set_tag(&t, "i", &hex::encode(raw)), &keys), "i tag differs from the real reference in one bit")
            }
            15 => (sign(Kind::MlsKeyPackage, &content, set_tag(&t, "mls_ciphersuite", "0x1"), &keys), "ciphersuite tag 0x1"),
            16 => (sign(Kind::MlsKeyPackage, &content, set_tag(&t, "mls_ciphersuite", "0x00001"), &keys), "ciphersuite tag 0x00001"),
            17 => (sign(Kind::MlsKeyPackage, &content, set_tag(&t, "mls_protocol_version", "1.00"), &keys), "protocol version 1.00"),
            0 => (sign(Kind::MlsKeyPackage, &content, drop_tag(&t, "encoding"), &keys), "missing encoding tag"),
            1 => (sign(Kind::MlsKeyPackage, &content, set_tag(&t, "encoding", "hex"), &keys), "encoding tag says hex"),
            2 => {
                let raw = base64::engine::general_purpose::STANDARD.decode(&content).unwrap_or_default();
                (sign(Kind::MlsKeyPackage, &hex::encode(raw), t.clone(), &keys), "hex content under a base64 tag")
            }
            3 => (sign(Kind::MlsKeyPackage, &content, set_tag(&t, "i", &"cd".repeat(32)), &keys), "i tag of another package"),
            4 => (sign(Kind::MlsKeyPackage, &content, drop_tag(&t, "i"), &keys), "missing i tag"),
            5 => (sign(Kind::MlsKeyPackage, &content, t.clone(), &other), "author differs from the credential identity"),
            6 => (sign(Kind::MlsKeyPackage, &content, set_tag(&t, "mls_protocol_version", "2.0"), &keys), "wrong protocol version"),
            7 => (sign(Kind::MlsKeyPackage, &content, set_tag(&t, "mls_ciphersuite", "0x0002"), &keys), "wrong ciphersuite"),
            8 => (sign(Kind::MlsKeyPackage, &content, set_tag(&t, "mls_extensions", "0x000a"), &keys), "extensions tag without the group-data extension"),
            9 => (sign(Kind::TextNote, &content, t.clone(), &keys), "wrong kind"),
            10 => (sign(Kind::MlsKeyPackage, &content, drop_tag(&t, "relays"), &keys), "missing relays tag"),
            _ => (sign(Kind::MlsKeyPackage, &content, drop_tag(&t, "mls_ciphersuite"), &keys), "missing ciphersuite tag"),
        };
        *rep.counters.entry("key-package-mutants".into()).or_insert(0) += 1;
        rep.classes.push(format!("key-package-mutant:{what}"));
        match std::panic::catch_unwind(std::panic::AssertUnwindSafe(|| on_mdk!(&b, mm => mm.parse_key_package(&ev2)).map(|_| ()))) {
            Err(_) => return Err(Failure::new("panic", format!("parse_key_package panicked on: {what}"))),
            Ok(Ok(())) => return Err(Failure::new("key-package-parser-accepted-an-ambiguous-event", format!("accepted a key package event with: {what}"))),
            Ok(Err(_)) => {}
        }
    }
    rep.nontrivial = true;
    Ok(())
}

fn tag_name(t: &Tag) -> String {
    t.as_slice().first().cloned().unwrap_or_default()
}
fn drop_tag(t: &[Tag], name: &str) -> Vec<Tag> {
    t.iter().filter(|x| tag_name(x) != name).cloned().collect()
}
fn set_tag(t: &[Tag], name: &str, val: &str) -> Vec<Tag> {
    t.iter().map(|x| if tag_name(x) == name { Tag::parse(vec![name.to_string(), val.to_string()]).unwrap() } else { x.clone() }).collect()
}
fn sign(kind: Kind, content: &str, tags: Vec<Tag>, keys: &Keys) -> Event {
    EventBuilder::new(kind, content).tags(tags).sign_with_keys(keys).expect("sign")
}

fn welcome_case(name: &str, muts: &[u8], rep: &mut CaseReport) -> Result<(), Failure> {
    let a = mem()?;
    let b = mem()?;
    let (ak, bk) = (Keys::generate(), Keys::generate());
    let apk = ak.public_key();
    let bpk = bk.public_key();
    let (content, tags, _) = on_mdk!(&b, m => m.create_key_package_for_event(&bpk, vec![RelayUrl::parse("wss://w.example.net").unwrap()])).map_err(|e| Failure::new("setup-failed", e.to_string()))?;
    let kp = sign(Kind::MlsKeyPackage, &content, tags, &bk);
    let cfg = NostrGroupConfigData::new(name.to_string(), format!("about {name}"), Some([3; 32]), Some([4; 32]), Some([5; 12]), vec![RelayUrl::parse("wss://w1.example.net").unwrap(), RelayUrl::parse("wss://w2.example.net").unwrap()], vec![apk]);
    let res = on_mdk!(&a, m => m.create_group(&apk, vec![kp], cfg)).map_err(|e| Failure::new("setup-failed", e.to_string()))?;
    let gid = res.group.mls_group_id.clone();
    let mut rumor = res.welcome_rumors[0].clone();
    rumor.ensure_id();
    // round trip: the joiner's preview is the inviter's group data
    let w = on_mdk!(&b, m => m.process_welcome(&nostr::EventId::all_zeros(), &rumor)).map_err(|e| Failure::new("own-welcome-refused", e.to_string()))?;
    let inviter = on_mdk!(&a, m => m.get_group(&gid)).ok().flatten().ok_or_else(|| Failure::new("setup-failed", "no group".to_string()))?;
    let inviter_relays: BTreeSet<RelayUrl> = on_mdk!(&a, m => m.get_relays(&gid)).unwrap_or_default();
    if w.group_name != inviter.name
        || w.group_description != inviter.description
        || w.group_admin_pubkeys != inviter.admin_pubkeys
        || w.nostr_group_id != inviter.nostr_group_id
        || w.group_image_hash != inviter.image_hash
        || w.group_relays != inviter_relays
        || w.mls_group_id != gid
        || w.welcomer != apk
        || w.member_count != 2
    {
        return Err(Failure::new("welcome-preview-differs-from-inviters-group-data", format!("{w:?} vs {inviter:?}")));
    }
    rep.classes.push("welcome:round-trip".into());
    for (i, m) in muts.iter().enumerate() {
        let t: Vec<Tag> = rumor.tags.iter().cloned().collect();
        let mut r = rumor.clone();
        let what: &str = match m % 10 {
            0 => {
                r.tags = drop_tag(&t, "encoding").into_iter().collect();
                "missing encoding tag"
            }
            7 => {
                // two encoding tags that disagree: which one counts is anybody's guess
                let mut tt = vec![Tag::custom(TagKind::custom("encoding"), ["hex"])];
                tt.extend(t.iter().cloned());
                r.tags = tt.into_iter().collect();
                "a hex encoding tag ahead of the base64 one"
            }
            8 => {
                let mut tt = t.clone();
                tt.push(Tag::custom(TagKind::custom("encoding"), ["hex"]));
                r.tags = tt.into_iter().collect();
                "a hex encoding tag after the base64 one"
            }
            9 => {
                let mut tt = t.clone();
                tt.push(Tag::custom(TagKind::custom("encoding"), Vec::<String>::new()));
                r.tags = tt.into_iter().collect();
                "a value-less encoding tag beside the base64 one"
            }
            1 => {
                r.tags = set_tag(&t, "encoding", "hex").into_iter().collect();
                "encoding tag says hex"
            }
            2 => {
                let raw = base64::engine::general_purpose::STANDARD.decode(&r.content).unwrap_or_default();
                r.content = hex::encode(raw);
                "hex content under a base64 tag"
            }
            3 => {
                r.kind = Kind::MlsGroupMessage;
                "wrong kind"
            }
            4 => {
                r.tags = drop_tag(&t, "relays").into_iter().collect();
                "missing relays tag"
            }
            5 => {
                r.tags = drop_tag(&t, "e").into_iter().collect();
                "missing key-package reference tag"
            }
            _ => {
                let n = r.content.len() / 2;
                r.content.truncate(n - n % 4);
                "truncated welcome"
            }
        };
        r.id = None;
        r.ensure_id();
        *rep.counters.entry("welcome-mutants".into()).or_insert(0) += 1;
        rep.classes.push(format!("welcome-mutant:{what}"));
        let c = mem()?;
        // (a fresh recipient cannot open it anyway; the structural checks come first)
        let wid = nostr::EventId::from_byte_array([i as u8 + 1; 32]);
        match std::panic::catch_unwind(std::panic::AssertUnwindSafe(|| on_mdk!(&b, mm => mm.process_welcome(&wid, &r)).map(|_| ()))) {
            Err(_) => return Err(Failure::new("panic", format!("process_welcome panicked on: {what}"))),
            Ok(Ok(())) => return Err(Failure::new("welcome-parser-accepted-an-ambiguous-rumor", format!("accepted a welcome with: {what}"))),
            Ok(Err(_)) => {}
        }
        let _ = c;
        // the same refusal is due when the receiver has seen the genuine invitation before:
        // under the wrapper id it already processed, and under a new wrapper id with the
        // genuine rumor's id kept (the checks on tags and kind do not depend on the content;
        // mutants of the content alone are left out here: for them the answer from the store
        // is legitimate)
        if !matches!(m % 10, 2 | 6) {
            let mut kept = r.clone();
            kept.id = rumor.id;
            let fresh = nostr::EventId::from_byte_array([0xA0 ^ (i as u8 + 1); 32]);
            for (how, wid, ev) in [("under the wrapper id of the genuine invitation", nostr::EventId::all_zeros(), &r), ("under a new wrapper id, keeping the genuine rumor's id", fresh, &kept)] {
                *rep.counters.entry("welcome-mutants-after-the-genuine-one".into()).or_insert(0) += 1;
                match std::panic::catch_unwind(std::panic::AssertUnwindSafe(|| on_mdk!(&b, mm => mm.process_welcome(&wid, ev)).map(|_| ()))) {
                    Err(_) => return Err(Failure::new("panic", format!("process_welcome panicked on: {what} ({how})"))),
                    Ok(Ok(())) => return Err(Failure::new("welcome-parser-accepted-an-ambiguous-rumor", format!("accepted a welcome with: {what}, offered {how}"))),
                    Ok(Err(_)) => {}
                }
            }
        }
    }
    rep.nontrivial = true;
    Ok(())
}

fn png(w: u32, h: u32, seed: u8) -> Vec<u8> {
    let img = image::RgbImage::from_fn(w, h, |x, y| image::Rgb([(x as u8).wrapping_mul(seed), (y as u8).wrapping_add(seed), seed]));
    let mut out = std::io::Cursor::new(Vec::new());
    img.write_to(&mut out, image::ImageFormat::Png).expect("png");
    out.into_inner()
}

fn imeta_case(mime: u8, filename: &str, size: u16, muts: &[u8], rep: &mut CaseReport) -> Result<(), Failure> {
    let a = mem()?;
    let ak = Keys::generate();
    let apk = ak.public_key();
    let res = on_mdk!(&a, m => m.create_group(&apk, vec![], NostrGroupConfigData::new("media".into(), "d".into(), None, None, None, vec![RelayUrl::parse("wss://m.example.net").unwrap()], vec![apk])))
        .map_err(|e| Failure::new("setup-failed", e.to_string()))?;
    let gid = res.group.mls_group_id.clone();
    let (mime_type, data): (&str, Vec<u8>) = match mime % 5 {
        0 => ("image/png", png(3 + (size % 9) as u32, 2 + (size % 5) as u32, size as u8)),
        1 => ("application/pdf", (0..size as usize + 1).map(|i| (i * 7) as u8).collect()),
        2 => ("text/plain", format!("hello {}", "x".repeat(size as usize)).into_bytes()),
        3 => ("audio/mpeg", (0..size as usize + 1).map(|i| (i * 13) as u8).collect()),
        _ => ("application/octet-stream", (0..size as usize).map(|i| (i * 3) as u8).collect()),
    };
    // the caller's spelling of the MIME type: as is, capitalised, with a parameter, with blanks
    let spelled = match (mime / 5) % 4 {
        0 => mime_type.to_string(),
        1 => {
            let mut c = mime_type.chars();
            c.next().map(|f| f.to_ascii_uppercase().to_string() + c.as_str()).unwrap_or_default()
        }
        2 => format!("{mime_type}; charset=utf-8"),
        _ => format!(" {mime_type} "),
    };
    let mime_type = spelled.as_str();
    rep.classes.push(format!("imeta:mime-spelling-{}", (mime / 5) % 4));
    on_mdk!(&a, m => {
        let mm = m.media_manager(gid.clone());
        let up = match mm.encrypt_for_upload(&data, mime_type, filename) {
            Ok(u) => u,
            Err(_) => {
                rep.classes.push("imeta:input-refused-by-validation".into());
                return Ok(());
            }
        };
        let url = format!("https://blossom.example.net/{}", hex::encode(up.encrypted_hash));
        let tag = mm.create_imeta_tag(&up, &url);
        let reference = mm.create_media_reference(&up, url.clone());
        let parsed = mm.parse_imeta_tag(&tag).map_err(|e| Failure::new("own-imeta-tag-refused", format!("{mime_type} {filename:?}: {e}")))?;
        if parsed.url != reference.url
            || parsed.original_hash != reference.original_hash
            || parsed.mime_type != reference.mime_type
            || parsed.filename != reference.filename
            || parsed.dimensions != reference.dimensions
            || parsed.scheme_version != reference.scheme_version
            || parsed.nonce != reference.nonce
        {
            return Err(Failure::new("imeta-round-trip-changed-the-reference", format!("{parsed:?} vs {reference:?}")));
        }
        rep.classes.push(format!("imeta:{mime_type}"));
        let vals: Vec<String> = tag.clone().to_vec();
        for m in muts {
            let mut v = vals.clone();
            let set = |v: &mut Vec<String>, key: &str, val: Option<String>| {
                v.retain(|x| !x.starts_with(&format!("{key} ")));
                if let Some(val) = val {
                    v.push(format!("{key} {val}"));
                }
            };
            let what: &str = match m % 11 {
                8 => { set(&mut v, "x", Some(format!("{}\u{e9}{}", "ab".repeat(15), "ab".repeat(16)))); "x of 64 bytes with a two-byte character inside" }
                9 => { set(&mut v, "n", Some(format!("a\u{20ac}{}", "ab".repeat(10)))); "n of 24 bytes with a three-byte character inside" }
                10 => { set(&mut v, "x", Some(format!("{}\u{1F600}", "ab".repeat(30)))); "x of 64 bytes ending in a four-byte character" }
                0 => { set(&mut v, "x", Some("ab".repeat(31))); "x of 31 bytes" }
                1 => { set(&mut v, "x", Some("zz".repeat(32))); "x not hex" }
                2 => { set(&mut v, "n", Some("ab".repeat(11))); "n of 11 bytes" }
                3 => { set(&mut v, "n", Some("ab".repeat(13))); "n of 13 bytes" }
                4 => { set(&mut v, "v", Some("mip04-v9".into())); "unknown scheme version" }
                5 => { set(&mut v, "x", None); "missing x" }
                6 => { set(&mut v, "n", None); "missing n" }
                _ => { set(&mut v, "v", None); "missing v" }
            };
            *rep.counters.entry("imeta-mutants".into()).or_insert(0) += 1;
            rep.classes.push(format!("imeta-mutant:{what}"));
            let t2 = Tag::parse(v).map_err(|e| Failure::new("setup-failed", e.to_string()))?;
            match std::panic::catch_unwind(std::panic::AssertUnwindSafe(|| mm.parse_imeta_tag(&t2).map(|_| ()))) {
                Err(_) => return Err(Failure::new("panic", format!("parse_imeta_tag panicked on: {what}"))),
                Ok(Ok(())) => return Err(Failure::new("imeta-parser-accepted-an-ambiguous-tag", format!("accepted an imeta tag with: {what}"))),
                Ok(Err(_)) => {}
            }
        }
        rep.nontrivial = true;
        Ok(())
    })
}

pub fn exec(case: &Case, _mode: Mode) -> Result<CaseReport, Failure> {
    let mut rep = CaseReport::default();
    match case {
        Case::Extension { v, muts } => extension_case(v, muts, &mut rep)?,
        Case::KeyPackage { relays, protected, muts } => key_package_case(relays, *protected, muts, &mut rep)?,
        Case::Welcome { name, muts } => welcome_case(name, muts, &mut rep)?,
        Case::Imeta { mime, filename, size, muts } => imeta_case(*mime, filename, *size, muts, &mut rep)?,
    }
    Ok(rep)
}

fn text() -> impl Strategy<Value = String> {
    prop_oneof![
        3 => "[ -~]{0,40}",
        2 => "\\PC{0,40}",
        1 => Just(String::new()),
        1 => "[a-z\\x00\\u{1F600}\\u{202E}é]{1,30}",
        1 => "[a-z]{200,700}",
    ]
}

pub fn main(args: &Args) -> i32 {
    let cases = match args.tier {
        Tier::Quick => 2400,
        Tier::Thorough => 16 * 150000,
    };
    let spec = Spec {
        id: "C15",
        level: "exploration",
        rule: "four generated families. (1) group-data extension values (any UTF-8 name/description incl. empty, NUL, multi-byte, long; 0..n admins and relays; all 16 presence patterns of the four image fields; versions 1..65535): library encoding equals an independent encoder of the documented layout, decode(encode(v)) = v, and each single-field mutation (appended bytes, truncation, version 0, non-UTF-8 name/description/relay, invalid relay URL, a relay URL whose normalised spelling no longer parses, image field lengths other than 0 or the fixed one, over-long length prefix, ragged admin vector, a list length prefix that ends inside the list's last element) is refused. (2) key-package events over relay lists / protected flag: a second client parses them to the same reference and identity; each listed ambiguity (missing / hex encoding tag, hex content, foreign or missing i tag, foreign author, wrong protocol / ciphersuite / extensions tags, wrong kind, missing relays) is refused. (3) welcome rumors of real create_group calls: the joiner's preview equals the inviter's group data; missing / hex / second disagreeing or value-less encoding tag, hex content, wrong kind, missing relays / e tag, truncation are refused - the structural ones also when offered after the genuine invitation under its wrapper id or with its rumor id. (4) imeta tags over MIME families (spelled canonically, capitalised, with a parameter, with surrounding blanks), file names and sizes: parse(create(u)) equals the reference; wrong-length or non-hex x / n, unknown or missing v, missing x / n are refused. Non-trivial = every case that reached its round trip; distinct = distinct cases".into(),
        assumptions: vec![
            "the reference encoder follows TLS presentation language with RFC 9420 variable-length integers (as tls_codec does)".into(),
            "trailing bytes after the TLS structure inside key-package / welcome content are measured by C06's mutants but not judged here: only the extension parser documents a trailing-byte check".into(),
        ],
        min_nontrivial: 50,
        max_shrink_iters: 1500,
        exhaustive: false,
    };
    let ext_mut = prop_oneof![
        1 => any::<u8>().prop_map(ExtMut::AppendBytes),
        1 => any::<u8>().prop_map(ExtMut::Truncate),
        6 => prop::sample::select(vec![ExtMut::VersionZero, ExtMut::NameNotUtf8, ExtMut::DescriptionNotUtf8, ExtMut::BadRelayUrl, ExtMut::RelayNotUtf8, ExtMut::AdminVectorRagged, ExtMut::RelayNotNormalisable]),
        1 => (0u8..4, any::<u8>()).prop_map(|(f, n)| ExtMut::ImageFieldLength(f, n)),
        1 => any::<u8>().prop_map(ExtMut::LengthPrefixTooLong),
        2 => any::<bool>().prop_map(ExtMut::ListPrefixEndsInsideElement),
    ];
    drive(
        args,
        spec,
        RunPlan { cases, workers: 16 },
        || {
            let ext = (
                prop_oneof![3 => 1u16..4, 1 => 1u16..=65535],
                any::<[u8; 32]>(),
                text(),
                text(),
                prop::collection::vec(any::<u8>(), 0..12),
                prop::collection::vec(any::<u8>(), 0..8),
                0u8..16,
                any::<u8>(),
            )
                .prop_map(|(version, gid, name, description, admins, relays, present, seed)| ExtValue { version, gid, name, description, admins, relays, present, seed });
            prop_oneof![
                12 => (ext, prop::collection::vec(ext_mut.clone(), 0..6)).prop_map(|(v, muts)| Case::Extension { v, muts }),
                2 => (prop::collection::vec(any::<u8>(), 0..5), any::<bool>(), prop::collection::vec(any::<u8>(), 0..8)).prop_map(|(relays, protected, muts)| Case::KeyPackage { relays, protected, muts }),
                2 => ("[ -~]{0,30}", prop::collection::vec(0u8..10, 0..5)).prop_map(|(name, muts)| Case::Welcome { name, muts }),
                2 => (0u8..20, prop_oneof![3 => "[a-zA-Z0-9 _.\\-]{1,40}", 1 => "\\PC{1,30}"], 0u16..3000, prop::collection::vec(0u8..11, 0..5)).prop_map(|(mime, filename, size, muts)| Case::Imeta { mime, filename, size, muts }),
            ]
        },
        exec,
    )
}
