//! C08 — the stored group record mirrors the MLS state after every call.

use crate::oracles::MirrorObserver;
use crate::plangen::{SetupOpts, Weights, plan_strategy};
use crate::props::common::{base_report, run_plan};
use crate::runner::{Args, CaseReport, Failure, Mode, RunPlan, Spec, Tier, drive, set_last_trace};
use crate::world::{Plan, Regime};
use proptest::prelude::*;

pub fn exec(plan: &Plan, mode: Mode) -> Result<CaseReport, Failure> {
    let mut obs = MirrorObserver::default();
    let mut fin = run_plan(plan, mode, &mut obs)?;
    // final sweep over every client
    for m in fin.world.actors() {
        if let Err(f) = obs.check_client(&fin.world, m, "end-of-history") {
            set_last_trace(std::mem::take(&mut fin.world.trace));
            return Err(f);
        }
    }
    let mut rep = base_report(&fin);
    rep.nontrivial = obs.nontrivial > 0;
    for (k, v) in &obs.paths {
        rep.classes.push(k.clone());
        *rep.counters.entry(k.clone()).or_insert(0) += v;
    }
    *rep.counters.entry("mirror-checks".into()).or_insert(0) += obs.checks;
    Ok(rep)
}

pub fn main(args: &Args) -> i32 {
    let (cases, len, sql) = match args.tier {
        Tier::Quick => (1000, 10..45, 30),
        Tier::Thorough => (16 * 1500, 10..70, 40),
    };
    let opts = SetupOpts {
        sql_percent: sql,
        regimes: vec![Regime::Causal, Regime::Unrestricted],
        retention: 1..=6,
        side_percent: 45,
        ..SetupOpts::default()
    };
    let weights = Weights {
        data: 10,
        merge_pending: 2,
        clear_pending: 2,
        restart: 2,
        side: 6,
        reinvite: true,
        ..Weights::default()
    };
    let spec = Spec {
        id: "C08",
        level: "exploration",
        rule: "plans rich in group-data updates (name, description, admins, relays, image fields, Nostr-id rotation), merges, clears, leaves, races and restarts; after every API call the acting client's record (epoch, name, description, admins, image fields, Nostr group id) and relay set are compared with its MLS state; 45 % of the worlds carry a second live group on some of the same clients (messages, self-updates, renames, Nostr-id rotations and relay changes there): every event must be stored in the group whose current Nostr group id it carries (also after that id rotated), no event or call of one group may change the other group's fingerprint (checked around every delivery, incl. rollbacks), events re-tagged with the other group's id are refused without effect, and the second group's record mirrors its MLS state too; an eighth of the histories start with a directed prelude (a message of the losing branch of a commit race is also posted into the second group, then the race is resolved by rollback); non-trivial = a call that changed the MLS epoch or the extension; distinct = distinct plans".into(),
        assumptions: vec!["only groups in state Active are judged".into()],
        min_nontrivial: 20,
        max_shrink_iters: 300,
        exhaustive: false,
    };
    drive(
        args,
        spec,
        RunPlan { cases, workers: 16 },
        || {
            // an eighth of the histories start with a directed prelude: three SQLite clients in
            // both groups; a message sent on the branch that will lose a commit race is also
            // posted into the second group (same message id there); then the better commit
            // arrives and the main group rolls back - the second group must not notice
            (plan_strategy(&opts, &weights, len.clone()), 0u8..8, any::<bool>())
                .prop_map(|(mut p, roll, sql)| {
                    if roll == 0 {
                        crate::plangen::crosspost_rollback_prelude(&mut p, sql);
                    } else if roll == 1 {
                        // a rollback onto an epoch whose relay set is empty, with a winner that
                        // cannot be applied afterwards
                        crate::plangen::empty_relays_rollback_prelude(&mut p, sql);
                    }
                    p
                })
                .boxed()
        },
        exec,
    )
}
