//! C08 — the stored group record mirrors the MLS state after every call.

use crate::oracles::MirrorObserver;
use crate::plangen::{SetupOpts, Weights, plan_strategy};
use crate::props::common::{base_report, run_plan};
use crate::runner::{Args, CaseReport, Failure, Mode, RunPlan, Spec, Tier, drive, set_last_trace};
use crate::world::{Plan, Regime};
use proptest::prelude::*;

pub fn exec(plan: &Plan, mode: Mode) -> Result<CaseReport, Failure> {
    let mut obs = MirrorObserver::default();
    let mut fin = run_plan(plan, mode, &mut obs)?;
    // final sweep over every client
    for m in fin.world.actors() {
        if let Err(f) = obs.check_client(&fin.world, m, "end-of-history") {
            set_last_trace(std::mem::take(&mut fin.world.trace));
            return Err(f);
        }
    }
    // the very first call: create_group with every presence pattern of the three image fields
    // (also the odd ones: a key or a nonce without a hash), on either backend
    let created = match create_shape(plan.ops.len() + plan.setup.members as usize * 7) {
        Ok(c) => c,
        Err(f) => {
            set_last_trace(std::mem::take(&mut fin.world.trace));
            return Err(f);
        }
    };
    let mut rep = base_report(&fin);
    if let Some(c) = created {
        rep.classes.push(c);
    }
    rep.nontrivial = obs.nontrivial > 0;
    for (k, v) in &obs.paths {
        rep.classes.push(k.clone());
        *rep.counters.entry(k.clone()).or_insert(0) += v;
    }
    *rep.counters.entry("mirror-checks".into()).or_insert(0) += obs.checks;
    Ok(rep)
}

fn create_shape(sel: usize) -> Result<Option<String>, Failure> {
    use crate::on_mdk;
    use crate::world::{BackendKind, Cfg, RollbackRecorder, open_client_mdk, relay_url, scratch_dir};
    let kind = if sel & 8 != 0 { BackendKind::Sql } else { BackendKind::Mem };
    let dir = scratch_dir("c08create");
    let path = dir.0.join("creator.db");
    let mdk = open_client_mdk(kind, Some(&path), &Cfg::default(), std::sync::Arc::new(RollbackRecorder::default())).map_err(|e| Failure::new("setup-failed", e))?;
    let keys = nostr::Keys::generate();
    let pk = keys.public_key();
    let hash = (sel & 1 != 0).then_some([0x11u8; 32]);
    let key = (sel & 2 != 0).then_some([0x22u8; 32]);
    let nonce = (sel & 4 != 0).then_some([0x33u8; 12]);
    let cfg = mdk_core::groups::NostrGroupConfigData::new("created".into(), "shape".into(), hash, key, nonce, vec![relay_url(0)], vec![pk]);
    let Ok(res) = on_mdk!(&mdk, m => m.create_group(&pk, vec![], cfg)) else {
        return Ok(None);
    };
    let gid = res.group.mls_group_id.clone();
    let level = on_mdk!(&mdk, m => crate::fingerprint::group_level(m, &gid)).map_err(|e| Failure::new("group-does-not-load", e))?;
    let Some(level) = level else { return Ok(None) };
    if let Some(d) = crate::oracles::mirror_mismatch(&level) {
        return Err(Failure::new(
            "record-does-not-mirror-mls-state",
            format!("right after create_group ({kind:?}; image hash {}, key {}, nonce {} given): {d}", hash.is_some(), key.is_some(), nonce.is_some()),
        ));
    }
    Ok(Some(format!("create_group-image-fields-{}{}{}", hash.is_some() as u8, key.is_some() as u8, nonce.is_some() as u8)))
}

pub fn main(args: &Args) -> i32 {
    let (cases, len, sql) = match args.tier {
        Tier::Quick => (1000, 10..45, 30),
        Tier::Thorough => (16 * 1500, 10..70, 40),
    };
    let opts = SetupOpts {
        sql_percent: sql,
        regimes: vec![Regime::Causal, Regime::Unrestricted],
        retention: 1..=6,
        side_percent: 45,
        ..SetupOpts::default()
    };
    let weights = Weights {
        data: 10,
        merge_pending: 2,
        clear_pending: 2,
        restart: 2,
        side: 6,
        reinvite: true,
        ..Weights::default()
    };
    let spec = Spec {
        id: "C08",
        level: "exploration",
        rule: "plans rich in group-data updates (name, description, admins, relays, image fields, Nostr-id rotation), merges, clears, leaves, races and restarts; after every API call the acting client's record (epoch, name, description, admins, image fields, Nostr group id) and relay set are compared with its MLS state; 45 % of the worlds carry a second live group on some of the same clients (messages, self-updates, renames, Nostr-id rotations and relay changes there): every event must be stored in the group whose current Nostr group id it carries (also after that id rotated), no event or call of one group may change the other group's fingerprint (checked around every delivery, incl. rollbacks), events re-tagged with the other group's id are refused without effect, and the second group's record mirrors its MLS state too; an eighth of the histories start with a directed prelude (a message of the losing branch of a commit race is also posted into the second group, then the race is resolved by rollback); non-trivial = a call that changed the MLS epoch or the extension; distinct = distinct plans".into(),
        assumptions: vec!["only groups in state Active are judged".into()],
        min_nontrivial: 20,
        max_shrink_iters: 300,
        exhaustive: false,
    };
    drive(
        args,
        spec,
        RunPlan { cases, workers: 16 },
        || {
            // an eighth of the histories start with a directed prelude: three SQLite clients in
            // both groups; a message sent on the branch that will lose a commit race is also
            // posted into the second group (same message id there); then the better commit
            // arrives and the main group rolls back - the second group must not notice
            (plan_strategy(&opts, &weights, len.clone()), 0u8..8, any::<bool>())
                .prop_map(|(mut p, roll, sql)| {
                    if roll == 0 {
                        crate::plangen::crosspost_rollback_prelude(&mut p, sql);
                    } else if roll == 1 {
                        // a rollback onto an epoch whose relay set is empty, with a winner that
                        // cannot be applied afterwards
                        crate::plangen::empty_relays_rollback_prelude(&mut p, sql);
                    }
                    p
                })
                .boxed()
        },
        exec,
    )
}
