//! Seed corpora for the libFuzzer targets: small valid artefacts made by the library itself.

use mdk_core::extension::NostrGroupDataExtension;
use mdk_core::groups::NostrGroupConfigData;
use nostr::{EventBuilder, JsonUtil, Keys, Kind, RelayUrl};

use crate::on_mdk;
use crate::world::{BackendKind, Cfg, RollbackRecorder, open_client_mdk};

pub fn write(dir: &str) -> i32 {
    let root = std::path::PathBuf::from(dir);
    let ext_dir = root.join("ext_bytes");
    let ev_dir = root.join("event_json");
    let _ = std::fs::create_dir_all(&ext_dir);
    let _ = std::fs::create_dir_all(&ev_dir);
    let keys = Keys::new(nostr::SecretKey::from_slice(&[7u8; 32]).unwrap());
    let pk = keys.public_key();
    let relay = RelayUrl::parse("wss://f.example.org").unwrap();
    for (i, (name, present)) in [("", 0u8), ("group", 15), ("ünï \u{1F600}", 5), ("x", 8)].iter().enumerate() {
        let mut e = NostrGroupDataExtension::new(
            name.to_string(),
            "description".to_string(),
            if i % 2 == 0 { vec![pk] } else { vec![] },
            if i > 0 { vec![relay.clone()] } else { vec![] },
            if present & 1 != 0 { Some([1; 32]) } else { None },
            if present & 2 != 0 { Some([2; 32]) } else { None },
            if present & 4 != 0 { Some([3; 12]) } else { None },
            if present & 8 != 0 { Some([4; 32]) } else { None },
        );
        e.nostr_group_id = [i as u8; 32];
        if let Ok(b) = e.verif_to_tls_bytes() {
            let _ = std::fs::write(ext_dir.join(format!("valid-{i}")), b);
        }
    }
    let rec = || std::sync::Arc::new(RollbackRecorder::default());
    let (Ok(a), Ok(b)) = (open_client_mdk(BackendKind::Mem, None, &Cfg::default(), rec()), open_client_mdk(BackendKind::Mem, None, &Cfg::default(), rec())) else { return 2 };
    let bk = Keys::generate();
    let bpk = bk.public_key();
    let Ok((content, tags, _)) = on_mdk!(&b, m => m.create_key_package_for_event(&bpk, vec![relay.clone()])) else { return 2 };
    let Ok(kp) = EventBuilder::new(Kind::MlsKeyPackage, content).tags(tags).sign_with_keys(&bk) else { return 2 };
    let _ = std::fs::write(ev_dir.join("key-package.json"), kp.as_json());
    let cfg = NostrGroupConfigData::new("fuzz".into(), "d".into(), None, None, None, vec![relay], vec![pk]);
    let Ok(res) = on_mdk!(&a, m => m.create_group(&pk, vec![kp], cfg)) else { return 2 };
    if let Some(w) = res.welcome_rumors.first() {
        let mut w = w.clone();
        w.ensure_id();
        let _ = std::fs::write(ev_dir.join("welcome-rumor.json"), w.as_json());
    }
    let rumor = EventBuilder::new(Kind::Custom(9), "hello").build(pk);
    if let Ok(ev) = on_mdk!(&a, m => m.create_message(&res.group.mls_group_id, rumor)) {
        let _ = std::fs::write(ev_dir.join("group-message.json"), ev.as_json());
    }
    0
}
