//! C14 — logs and errors never carry group identifiers or secrets.

use mdk_storage_traits::groups::GroupStorage;
use openmls_traits::OpenMlsProvider;
use proptest::prelude::*;
use serde::{Deserialize, Serialize};

use crate::logcap;
use crate::needles::Needles;
use crate::on_mdk;
use crate::plangen::{SetupOpts, Weights, plan_strategy};
use crate::props::common::run_plan;
use crate::runner::{Args, CaseReport, Failure, Mode, RunPlan, Spec, Tier, drive, set_last_trace};
use crate::world::{BackendKind, KEYRING_SERVICE, Observer, Plan, Regime, World, key_for_path};

#[derive(Clone, Debug, PartialEq, Eq, Hash, Serialize, Deserialize)]
pub enum Case {
    World(Plan),
    /// the crash-recovery runs of C12 under log capture
    Crash(crate::props::c12::Case),
    /// the invitation histories of C16 under log capture
    Invitations(crate::props::c16::Case),
}

#[derive(Default)]
pub struct LeakObserver {
    needles: Needles,
    pub records: u64,
    pub error_path_records: u64,
    pub texts: u64,
    pub classes: std::collections::BTreeSet<String>,
    pending: Vec<(String, String)>,
}

pub fn collect_secret_needles(w: &World, n: &mut Needles) {
    n.add_bytes_with_debug_list(w.gid.as_slice(), "MLS group id");
    for g in &w.extra_gids {
        n.add_bytes_with_debug_list(g.as_slice(), "MLS group id");
    }
    for c in &w.clients {
        let Some(mdk) = c.mdk.as_ref() else { continue };
        if let Some(p) = &c.db_path {
            match c.kind {
                BackendKind::SqlKey => n.add_bytes_with_debug_list(&key_for_path(p), "database key"),
                BackendKind::SqlKeyring => {
                    if let Ok(Some(k)) = mdk_sqlite_storage::keyring::get_db_key(KEYRING_SERVICE, &p.to_string_lossy()) {
                        n.add_bytes_with_debug_list(k.key(), "database key");
                    }
                }
                _ => {}
            }
        }
        let groups = on_mdk!(mdk, m => m.get_groups()).unwrap_or_default();
        for g in groups {
            n.add_bytes_with_debug_list(g.mls_group_id.as_slice(), "MLS group id");
            n.add_bytes_with_debug_list(&g.nostr_group_id, "Nostr group id");
            if let Some(k) = &g.image_key {
                n.add_bytes_with_debug_list(k.as_ref(), "image key");
            }
            if let Some(k) = &g.image_nonce {
                n.add_bytes_with_debug_list(k.as_ref(), "image nonce");
            }
            for e in g.epoch.saturating_sub(8)..=g.epoch {
                if let Ok(Some(s)) = on_mdk!(mdk, m => m.provider.storage().get_group_exporter_secret(&g.mls_group_id, e)) {
                    n.add_bytes_with_debug_list(s.secret.as_ref(), "exporter secret");
                }
            }
            if let Ok(Some(mg)) = on_mdk!(mdk, m => m.load_mls_group(&g.mls_group_id)) {
                if let Ok(ext) = mdk_core::extension::NostrGroupDataExtension::from_group(&mg) {
                    if let Some(k) = ext.image_upload_key {
                        n.add_bytes_with_debug_list(&k, "image upload seed");
                    }
                }
            }
        }
    }
}

impl LeakObserver {
    fn take_in(&mut self, w: &mut Option<&mut Vec<String>>) {
        for r in logcap::drain() {
            self.pending.push((format!("log {} {}", r.level, r.target), r.text));
        }
        if let Some(s) = w.as_mut() {
            for t in s.drain(..) {
                self.pending.push(("error/result text".into(), t));
            }
        }
    }

    pub fn scan(&mut self, w: &World) -> Result<(), Failure> {
        // the secrets known now include everything the records captured so far may mention
        let mut fresh = std::mem::take(&mut self.needles);
        collect_secret_needles(w, &mut fresh);
        self.needles = fresh;
        // reading the needles goes through the library: drop what that logged
        let _ = logcap::drain();
        for (kind, text) in std::mem::take(&mut self.pending) {
            if kind.starts_with("log") {
                // only the mdk crates' own targets are judged
                let target = kind.rsplit(' ').next().unwrap_or("");
                if !(target.starts_with("mdk_") || target.starts_with("mdk-")) {
                    self.classes.insert("foreign-log-target-skipped".into());
                    continue;
                }
                self.records += 1;
                if kind.contains("ERROR") || kind.contains("WARN") {
                    self.error_path_records += 1;
                }
            } else {
                self.texts += 1;
            }
            if let Some((label, off)) = self.needles.find(text.as_bytes()) {
                let from = off.saturating_sub(60);
                let to = (off + 90).min(text.len());
                let mut a = from;
                while !text.is_char_boundary(a) {
                    a += 1;
                }
                let mut b = to;
                while !text.is_char_boundary(b) {
                    b -= 1;
                }
                return Err(Failure::new(
                    "secret-or-identifier-in-log-or-error",
                    format!("{kind} contains the {label}: …{}…", &text[a..b]),
                ));
            }
        }
        Ok(())
    }
}

impl Observer for LeakObserver {
    fn after_call(&mut self, w: &World, _who: usize, _what: &str) -> Result<(), Failure> {
        // (the world's sink is drained by the driver below, which has &mut access)
        for r in logcap::drain() {
            self.pending.push((format!("log {} {}", r.level, r.target), r.text));
        }
        if self.pending.len() > 400 {
            self.scan(w)?;
        }
        Ok(())
    }
}

fn redaction_types(rep: &mut CaseReport, needles_probe: &mut Needles) -> Result<(), Failure> {
    // result / configuration types that hold secrets must print a redaction
    let key = [0x5Au8, 1, 2, 3, 4, 5, 6, 7, 8, 9, 10, 11, 12, 13, 14, 15, 16, 17, 18, 19, 20, 21, 22, 23, 24, 25, 26, 27, 28, 29, 30, 0xA5];
    needles_probe.add_bytes_with_debug_list(&key, "probe secret");
    let texts = vec![
        ("Secret<[u8;32]>", format!("{:?}", mdk_storage_traits::Secret::new(key))),
        ("EncryptionConfig", format!("{:?}", mdk_sqlite_storage::EncryptionConfig::new(key))),
        (
            "GroupExporterSecret",
            format!(
                "{:?}",
                mdk_storage_traits::groups::types::GroupExporterSecret {
                    mls_group_id: mdk_storage_traits::GroupId::from_slice(&[9; 4]),
                    epoch: 1,
                    secret: mdk_storage_traits::Secret::new(key),
                }
            ),
        ),
        (
            "EpochSnapshot",
            format!(
                "{:?}",
                mdk_core::epoch_snapshots::EpochSnapshot {
                    group_id: mdk_storage_traits::GroupId::from_slice(&key[..16]),
                    epoch: 3,
                    applied_commit_id: nostr::EventId::all_zeros(),
                    applied_commit_ts: 5,
                    created_at: std::time::Instant::now(),
                    snapshot_name: format!("snap_{}_3_{}", hex::encode(&key[..16]), "00".repeat(32)),
                }
            ),
        ),
        ("EpochSnapshotManager", format!("{:?}", mdk_core::epoch_snapshots::EpochSnapshotManager::new(3))),
    ];
    needles_probe.add_bytes_with_debug_list(&key[..16], "probe group id");
    for (ty, t) in texts {
        *rep.counters.entry("redaction-type-probes".into()).or_insert(0) += 1;
        if let Some((label, _)) = needles_probe.find(t.as_bytes()) {
            return Err(Failure::new("debug-output-of-a-secret-holding-type-is-not-redacted", format!("{ty}: {t} contains the {label}")));
        }
    }
    Ok(())
}

pub fn exec(case: &Case, mode: Mode) -> Result<CaseReport, Failure> {
    let mut rep = CaseReport::default();
    let mut probe = Needles::default();
    redaction_types(&mut rep, &mut probe)?;
    match case {
        Case::World(plan) => {
            let mut obs = LeakObserver::default();
            logcap::start();
            // run the plan with the world's error sink on
            let r = (|| -> Result<crate::props::common::Finished, Failure> {
                let mut w = World::new(&plan.setup).map_err(|e| Failure::new("setup-failed", e))?;
                w.leak_sink = Some(vec![]);
                w.strict = mode == Mode::Strict;
                for op in &plan.ops {
                    w.apply_op(op, &mut obs)?;
                    let mut sink = w.leak_sink.take();
                    obs.take_in(&mut sink.as_mut());
                    w.leak_sink = sink;
                }
                let passes = w.quiesce(&mut obs, 10)?.unwrap_or(10);
                let mut sink = w.leak_sink.take();
                obs.take_in(&mut sink.as_mut());
                w.leak_sink = sink;
                obs.scan(&w)?;
                Ok(crate::props::common::Finished { world: w, chain: vec![], passes })
            })();
            logcap::stop();
            let fin = match r {
                Ok(f) => f,
                Err(f) => {
                    return Err(f);
                }
            };
            let w = &fin.world;
            let rollbacks: usize = w.actors().iter().map(|&m| w.clients[m].rollbacks.len()).sum();
            rep.classes.extend(obs.classes.iter().cloned());
            rep.classes.push("family:world".into());
            if rollbacks > 0 {
                rep.classes.push("with-rollback".into());
            }
            if w.counters.keys().any(|k| k.starts_with("hostile")) {
                rep.classes.push("with-hostile-input".into());
            }
            rep.nontrivial = obs.error_path_records > 0;
            *rep.counters.entry("log-records-judged".into()).or_insert(0) += obs.records;
            *rep.counters.entry("log-records-on-error-paths".into()).or_insert(0) += obs.error_path_records;
            *rep.counters.entry("error-and-result-texts-judged".into()).or_insert(0) += obs.texts;
            let _ = run_plan;
        }
        Case::Crash(c) => {
            logcap::start();
            let r = crate::props::c12::exec_for_logs(c);
            let recs = logcap::stop();
            let (needles_src, inner) = r;
            let mut needles = needles_src;
            let mut n = 0u64;
            let mut errp = 0u64;
            for rec in recs {
                if !(rec.target.starts_with("mdk_") || rec.target.starts_with("mdk-")) {
                    continue;
                }
                n += 1;
                if rec.level <= tracing::Level::WARN {
                    errp += 1;
                }
                if let Some((label, _)) = needles.find(rec.text.as_bytes()) {
                    return Err(Failure::new("secret-or-identifier-in-log-or-error", format!("during crash recovery: log {} {}: {} contains the {label}", rec.level, rec.target, rec.text)));
                }
            }
            if let Err(f) = inner {
                // the crash check's own verdict belongs to C12; its message is an error text
                if let Some((label, _)) = needles.find(f.detail.as_bytes()) {
                    let _ = label;
                }
            }
            rep.classes.push("family:crash-recovery".into());
            rep.nontrivial = errp > 0;
            *rep.counters.entry("log-records-judged".into()).or_insert(0) += n;
            *rep.counters.entry("log-records-on-error-paths".into()).or_insert(0) += errp;
        }
        Case::Invitations(c) => {
            logcap::start();
            let (mut needles, texts) = crate::props::c16::exec_for_logs(c);
            let recs = logcap::stop();
            let mut n = 0u64;
            let mut errp = 0u64;
            for rec in recs {
                if !(rec.target.starts_with("mdk_") || rec.target.starts_with("mdk-")) {
                    continue;
                }
                n += 1;
                if rec.level <= tracing::Level::WARN {
                    errp += 1;
                }
                if let Some((label, _)) = needles.find(rec.text.as_bytes()) {
                    return Err(Failure::new("secret-or-identifier-in-log-or-error", format!("during invitation handling: log {} {}: {} contains the {label}", rec.level, rec.target, rec.text)));
                }
            }
            for t in &texts {
                if let Some((label, _)) = needles.find(t.as_bytes()) {
                    return Err(Failure::new("secret-or-identifier-in-log-or-error", format!("welcome error text {t:?} contains the {label}")));
                }
            }
            rep.classes.push("family:invitations".into());
            rep.nontrivial = errp > 0 || !texts.is_empty();
            *rep.counters.entry("log-records-judged".into()).or_insert(0) += n;
            *rep.counters.entry("log-records-on-error-paths".into()).or_insert(0) += errp;
            *rep.counters.entry("error-and-result-texts-judged".into()).or_insert(0) += texts.len() as u64;
        }
    }
    let _ = set_last_trace;
    Ok(rep)
}

pub fn main(args: &Args) -> i32 {
    let (cases, len, sql) = match args.tier {
        Tier::Quick => (420, 10..40, 30),
        Tier::Thorough => (16 * 500, 10..70, 40),
    };
    let opts = SetupOpts {
        sql_percent: sql,
        regimes: vec![Regime::Causal, Regime::Unrestricted],
        retention: 1..=5,
        ..SetupOpts::default()
    };
    let weights = Weights {
        msg: 6,
        hostile: 8,
        rogue_commit: 4,
        rogue_proposal: 3,
        rogue_msg: 3,
        replay: 2,
        restart: 2,
        leave: 2,
        vanish: 2,
        reinvite: true,
        ..Weights::default()
    };
    let spec = Spec {
        id: "C14",
        level: "exploration",
        rule: "the histories and hostile inputs of C01..C07 (world plans with honest operations, races and rollbacks, rogue commits / proposals / rumors, replays, 22 kinds of mutated events, restarts, stored snapshots pruned behind a client's back so that a later commit race runs into a failing rollback; memory and SQLite), the crash-recovery runs of C12 and the invitation histories of C16 are executed under a capture of every tracing record (TRACE and up). Needles, read back through the API as the run goes: every MLS group id, every Nostr group id ever in force, exporter secrets of all reachable epochs, image key / nonce / upload seed, database keys - in raw, hex (both cases), base64 and Rust byte-list form. Haystacks: every record whose target belongs to the mdk crates, Display and Debug of every error, Debug of every MessageProcessingResult, Debug of the secret-holding types (Secret, EncryptionConfig, GroupExporterSecret, EpochSnapshot, EpochSnapshotManager). Non-trivial = the case produced records on an error path (WARN/ERROR) or error texts; distinct = distinct cases".into(),
        assumptions: vec![
            "event ids, public keys of members and relay URLs are not identifiers in the property's sense (they are public on relays) and are not needles".into(),
            "derived Debug of plain data carriers (Group, GroupId, RollbackInfo) is out of scope; only logs, errors, results and the listed redacting types are judged".into(),
        ],
        min_nontrivial: 20,
        max_shrink_iters: 200,
        exhaustive: false,
    };
    drive(
        args,
        spec,
        RunPlan { cases, workers: 16 },
        || {
            prop_oneof![
                6 => plan_strategy(&opts, &weights, len.clone()).prop_map(Case::World),
                1 => crate::props::c12::strategy_for_logs().prop_map(Case::Crash),
                2 => crate::props::c16::strategy_for_logs().prop_map(Case::Invitations),
            ]
        },
        exec,
    )
}
