//! C11 — restarting on persistent storage is invisible.

use crate::oracles;
use crate::plangen::{SetupOpts, Weights, plan_strategy};
use crate::props::common::{base_report, judge, run_plan};
use crate::runner::{Args, CaseReport, Failure, Mode, RunPlan, Spec, Tier, drive};
use crate::world::{Apply, NoObserver, Op, Plan, Regime, Cfg};
use proptest::prelude::*;

pub fn exec(plan: &Plan, mode: Mode) -> Result<CaseReport, Failure> {
    let mut obs = NoObserver;
    let mut fin = run_plan(plan, mode, &mut obs)?;
    // active members must converge exactly as without restarts, messages included
    let conv = judge(&mut fin, |w, chain| oracles::check_convergence(w, chain, mode))?;
    let msgs = judge(&mut fin, |w, chain| oracles::check_messages(w, chain, mode))?;
    let mut rep = base_report(&fin);
    let w = &fin.world;
    let restarts: usize = w.actors().iter().map(|&m| w.clients[m].restarts.len()).sum();
    // non-trivial: a restart followed later by an event whose handling depends on volatile
    // state (a commit that needs a rollback, an own echo) at the restarted client
    let mut nontrivial = false;
    for &m in &w.actors() {
        let cl = &w.clients[m];
        for &r in &cl.restarts {
            if cl.rollbacks.iter().any(|rb| rb.step > r) {
                rep.classes.push("rollback-after-restart".into());
                nontrivial = true;
            }
            if cl.delivered.iter().any(|(idx, d)| d.first_step > r && w.relay[*idx].author == m) {
                rep.classes.push("own-echo-after-restart".into());
                nontrivial = true;
            }
            if cl.delivered.iter().any(|(idx, d)| d.first_step > r && !d.first_at_base && w.relay[*idx].class == crate::world::Class::Commit) {
                rep.classes.push("late-commit-after-restart".into());
                nontrivial = true;
            }
        }
    }
    if w.twin.is_some() {
        rep.classes.push("with-twin".into());
    }
    rep.nontrivial = nontrivial;
    rep.excused = conv.excused.clone();
    rep.excused.extend(msgs.excused.iter().cloned());
    if w.twin_excused > 0 {
        rep.excused.push("O8-restart-forgets-commit-timestamps".into());
    }
    *rep.counters.entry("restarts".into()).or_insert(0) += restarts as u64;
    *rep.counters.entry("twin-comparisons".into()).or_insert(0) += w.twin_checks;
    *rep.counters.entry("members-agreeing-with-reference".into()).or_insert(0) += conv.agreed as u64;
    Ok(rep)
}

pub fn main(args: &Args) -> i32 {
    let (cases, len) = match args.tier {
        Tier::Quick => (320, 10..40),
        Tier::Thorough => (16 * 500, 10..70),
    };
    let opts = SetupOpts {
        min_members: 2,
        max_members: 4,
        all_sql: true,
        spares: 1,
        regimes: vec![Regime::Causal, Regime::Causal, Regime::Unrestricted],
        retention: 2..=5,
        twin: true,
        // one history in four runs with "snapshots never expire"
        cfgs: vec![Cfg::default(), Cfg::default(), Cfg::default(), Cfg { ttl: u64::MAX, ..Cfg::default() }],
        ..SetupOpts::default()
    };
    let weights = Weights {
        msg: 5,
        restart: 7,
        solo_group: 2,
        redeliver: 3,
        immediate: 0,
        ..Weights::default()
    };
    let spec = Spec {
        id: "C11",
        level: "exploration",
        rule: "C01/C02-style histories with every client on SQLite and restarts (drop MDK and storage, reopen the file) at arbitrary positions: between a worse and a better commit, with a pending commit, with queued proposals, between process_welcome and accept_welcome, after key-package creation. Three oracles: (1) every restart leaves the full API-visible fingerprint and the pending welcomes identical; (2) a passive non-admin member is mirrored by a twin opened on a copy of its database that receives the same events and never restarts - full fingerprints equal after every delivery; (3) the restarted members converge with the others and hold the winning branch's messages exactly as C01/C02 demand. A quarter of the histories start with a directed prelude: a race lost two or three commits deep, restart(s), then a fresh race on the new branch whose worse commit arrives first; a fifth start with eleven commits in a row (the epoch crosses from one digit to two) that the passive client applies as one backlog, a restart, and three more commits. Non-trivial = a restart followed later by a rollback, an own echo or a late commit at that client; distinct = distinct plans".into(),
        assumptions: vec![
            "clean shutdown only (crashes are C12)".into(),
            "wall-clock fields (processed_at, self-update completion time) are erased before comparing".into(),
        ],
        min_nontrivial: 15,
        max_shrink_iters: 250,
        exhaustive: false,
    };
    drive(
        args,
        spec,
        RunPlan { cases, workers: 16 },
        || {
            // a quarter of the histories start with a directed prelude (the random tail follows):
            // a commit race lost `depth` commits deep, the restart, then a fresh race on the new
            // branch whose worse commit arrives first - the restarted client must still resolve it
            (plan_strategy(&opts, &weights, len.clone()), 0u8..5, 2u8..4, any::<bool>())
                .prop_map(|(mut p, roll, depth, restart_twice)| {
                    if roll == 1 {
                        // the epoch counter crosses from one digit to two while the passive client
                        // catches up on a backlog (all snapshots within one second), then the
                        // restart, then more commits: which snapshots retention evicts must not
                        // depend on the restart (the twin never restarts)
                        p.setup.members = 3;
                        p.setup.admin_mask = 1;
                        p.setup.regime = Regime::Causal;
                        p.setup.cfg.retention = 2 + (depth as usize % 3);
                        let (a0, m0, m2) = (0u16, 0u16, 32768u16);
                        let mut pre = vec![];
                        for _ in 0..11 {
                            pre.push(Op::SelfUpdate { m: a0, ts: 1, apply: Apply::Echo });
                            pre.push(Op::SelfEcho { m: m0 });
                        }
                        pre.push(Op::CatchUp { m: m2 });
                        pre.push(Op::Restart { m: m2 });
                        for _ in 0..3 {
                            pre.push(Op::SelfUpdate { m: a0, ts: 1, apply: Apply::Echo });
                            pre.push(Op::SelfEcho { m: m0 });
                            pre.push(Op::CatchUp { m: m2 });
                        }
                        p.ops.truncate(20);
                        pre.extend(p.ops.drain(..));
                        p.ops = pre;
                    }
                    if roll == 0 {
                        p.setup.members = 3;
                        p.setup.admin_mask = 1;
                        p.setup.regime = Regime::Causal;
                        p.setup.cfg.retention = p.setup.cfg.retention.max(depth as usize + 1);
                        // selectors: acting clients are c0, c1 (c2 is the passive, twinned subject);
                        // actors for deliveries / restarts are c0, c1, c2 and the spare
                        let (a0, a1) = (0u16, 32768u16);
                        let (m0, m1, m2) = (0u16, 16384u16, 32768u16);
                        let mut pre = vec![];
                        for _ in 0..depth {
                            pre.push(Op::SelfUpdate { m: a0, ts: 3, apply: Apply::Echo });
                            pre.push(Op::SelfEcho { m: m0 });
                        }
                        pre.push(Op::SelfUpdate { m: a1, ts: 1, apply: Apply::Echo });
                        // in publication order: the losing branch first, then the better commit
                        for _ in 0..=depth {
                            pre.push(Op::Deliver { m: m2, sel: 0 });
                        }
                        pre.push(Op::Restart { m: m2 });
                        pre.push(Op::SelfEcho { m: m1 });
                        pre.push(Op::CatchUp { m: m0 });
                        if restart_twice {
                            pre.push(Op::Restart { m: m2 });
                        }
                        pre.push(Op::SelfUpdate { m: a1, ts: 4, apply: Apply::Echo });
                        pre.push(Op::SelfUpdate { m: a0, ts: 1, apply: Apply::Echo });
                        pre.push(Op::CatchUp { m: m2 });
                        p.ops.truncate(25);
                        pre.extend(p.ops.drain(..));
                        p.ops = pre;
                    }
                    p
                })
                .boxed()
        },
        exec,
    )
}
