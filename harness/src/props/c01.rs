//! C01 — members converge on the MIP-03 selected group state.

use crate::oracles;
use proptest::prelude::*;
use crate::plangen::{SetupOpts, Weights, plan_strategy};
use crate::props::common::{base_report, judge, run_plan};
use crate::runner::{Args, CaseReport, Failure, Mode, RunPlan, Spec, Tier, drive};
use crate::world::{NoObserver, Plan, Regime};

pub fn exec(plan: &Plan, mode: Mode) -> Result<CaseReport, Failure> {
    let mut obs = NoObserver;
    let mut fin = run_plan(plan, mode, &mut obs)?;
    let conv = judge(&mut fin, |w, chain| oracles::check_convergence(w, chain, mode))?;
    let mut rep = base_report(&fin);
    rep.excused = conv.excused.clone();
    for (k, v) in conv.skipped {
        *rep.counters.entry(format!("not-asserted:{k}")).or_insert(0) += v;
    }
    *rep.counters.entry("members-agreeing-with-reference".into()).or_insert(0) += conv.agreed as u64;
    Ok(rep)
}

pub fn main(args: &Args) -> i32 {
    let (cases, len, sql) = match args.tier {
        Tier::Quick => (1600, 8..45, 12),
        Tier::Thorough => (16 * 2500, 8..70, 25),
    };
    let opts = SetupOpts {
        sql_percent: sql,
        regimes: vec![Regime::Causal, Regime::Causal, Regime::Unrestricted],
        retention: 1..=6,
        ..SetupOpts::default()
    };
    let weights = Weights::default();
    let spec = Spec {
        id: "C01",
        level: "exploration",
        rule: "plans of member actions and per-member deliveries (proptest); non-trivial = at least two commits created on one base state, or a commit first offered to a member that was not in the commit's base state, or a rollback observed; distinct = distinct plans".into(),
        assumptions: vec![
            "the reference replica (a silent, never-removed, non-admin member that processes the chain strictly in order) is the MIP-03 selection; it must itself agree with every converged member".into(),
            "MLS/HPKE/NIP-44 randomness and therefore event ids are not replayable; id order in timestamp ties is whatever the run produced".into(),
            "group size <= 6 + reference, plan length and fork depth bounded".into(),
        ],
        min_nontrivial: 20,
        max_shrink_iters: 400,
        exhaustive: false,
    };
    drive(
        args,
        spec,
        RunPlan { cases, workers: 16 },
        || {
            // one history in twelve starts with a fork exactly as deep as the rollback window
            (plan_strategy(&opts, &weights, len.clone()), 0u8..12, any::<bool>())
                .prop_map(|(mut p, roll, longer)| {
                    if roll == 0 {
                        crate::plangen::deep_fork_prelude(&mut p, longer);
                    }
                    p
                })
                .boxed()
        },
        exec,
    )
}
