//! The rogue toolkit: what a modified client (member, stale ex-member, outsider) can emit.
//! Uses only public surface: `MDK::load_mls_group` (feature `debug-examples`), the public
//! `provider` field, `SignatureKeyPair::read`, `export_secret("nostr")`, NIP-44.

use mdk_core::MDK;
use mdk_core::extension::NostrGroupDataExtension;
use mdk_storage_traits::groups::GroupStorage;
use mdk_storage_traits::{GroupId, MdkStorageProvider};
use nostr::nips::nip44;
use nostr::{Event, EventBuilder, Keys, Kind, SecretKey, Tag, TagKind, Timestamp};
use openmls::prelude::*;
use openmls_basic_credential::SignatureKeyPair;
use serde::{Deserialize, Serialize};
use tls_codec::Serialize as _;

#[derive(Clone, Copy, Debug, PartialEq, Eq, Hash, Serialize, Deserialize)]
pub enum RogueCommit {
    /// add an outsider (key package supplied by the harness)
    Add,
    Remove,
    /// change the group name through a group-context-extensions proposal
    GceRename,
    /// make the committer an admin
    GceSelfPromote,
    /// plain path update (legitimate for everyone)
    SelfUpdate,
    /// path update whose new leaf carries another member's Nostr identity
    ForeignIdentity,
    /// path update whose new leaf carries something that is not a 32-byte key at all: empty (0),
    /// the own key cut to 31 bytes (1), the own key as 64 hex characters (2), 33 bytes (3)
    MalformedIdentity(u8),
    /// remove + path update
    Mixed,
    /// commit whatever sits in the own proposal queue (by reference)
    PendingByRef,
    /// no proposals at all
    Empty,
}

#[derive(Clone, Copy, Debug, PartialEq, Eq, Hash, Serialize, Deserialize)]
pub enum RogueProposal {
    Remove,
    Add,
    GceRename,
    SelfUpdate,
    /// a stand-alone Update proposal whose new leaf carries somebody else's Nostr identity
    UpdateForeignIdentity,
}

pub fn current_exporter_secret<S: MdkStorageProvider>(
    mdk: &MDK<S>,
    gid: &GroupId,
) -> Result<[u8; 32], String> {
    let g = mdk
        .load_mls_group(gid)
        .map_err(|e| e.to_string())?
        .ok_or("no group")?;
    let v = g
        .export_secret(mdk.provider.crypto(), "nostr", b"nostr", 32)
        .map_err(|e| e.to_string())?;
    v.try_into().map_err(|_| "bad secret length".to_string())
}

pub fn stored_exporter_secret<S: MdkStorageProvider>(
    mdk: &MDK<S>,
    gid: &GroupId,
    epoch: u64,
) -> Option<[u8; 32]> {
    mdk.provider
        .storage()
        .get_group_exporter_secret(gid, epoch)
        .ok()
        .flatten()
        .map(|s| *s.secret)
}

pub fn nip44_keys(secret: &[u8; 32]) -> Result<Keys, String> {
    Ok(Keys::new(SecretKey::from_slice(secret).map_err(|e| e.to_string())?))
}

pub fn wrap_445(
    secret: &[u8; 32],
    nostr_group_id: &[u8; 32],
    mls_bytes: &[u8],
    created_at: u64,
) -> Result<Event, String> {
    let keys = nip44_keys(secret)?;
    let content = nip44::encrypt(
        keys.secret_key(),
        &keys.public_key,
        mls_bytes,
        nip44::Version::default(),
    )
    .map_err(|e| e.to_string())?;
    EventBuilder::new(Kind::MlsGroupMessage, content)
        .tag(Tag::custom(TagKind::h(), [hex::encode(nostr_group_id)]))
        .custom_created_at(Timestamp::from_secs(created_at))
        .sign_with_keys(&Keys::generate())
        .map_err(|e| e.to_string())
}

pub fn unwrap_445(secret: &[u8; 32], ev: &Event) -> Option<Vec<u8>> {
    let keys = nip44_keys(secret).ok()?;
    nip44::decrypt_to_bytes(keys.secret_key(), &keys.public_key, &ev.content).ok()
}

pub fn own_signer<S: MdkStorageProvider>(mdk: &MDK<S>, g: &MlsGroup) -> Result<SignatureKeyPair, String> {
    let leaf = g.own_leaf().ok_or("no own leaf")?;
    SignatureKeyPair::read(
        mdk.provider.storage(),
        leaf.signature_key().as_slice(),
        g.ciphersuite().signature_algorithm(),
    )
    .ok_or_else(|| "cannot load signer".to_string())
}

pub struct Built {
    pub mls_bytes: Vec<u8>,
    pub secret: [u8; 32],
    pub nostr_group_id: [u8; 32],
    pub welcome: Option<Vec<u8>>,
}

fn leaf_index_of(g: &MlsGroup, identity_hex: &str) -> Option<LeafNodeIndex> {
    g.members().find_map(|m| {
        let id = BasicCredential::try_from(m.credential.clone()).ok()?;
        if hex::encode(id.identity()) == identity_hex { Some(m.index) } else { None }
    })
}

/// Build a commit directly with OpenMLS on the client's own state. The pending commit is
/// cleared again afterwards, so the client's stored state is as before.
pub fn build_commit<S: MdkStorageProvider>(
    mdk: &MDK<S>,
    gid: &GroupId,
    kind: RogueCommit,
    target_identity_hex: Option<&str>,
    key_package: Option<KeyPackage>,
) -> Result<Built, String> {
    let mut g = mdk
        .load_mls_group(gid)
        .map_err(|e| e.to_string())?
        .ok_or("no group")?;
    let signer = own_signer(mdk, &g)?;
    let secret = current_exporter_secret(mdk, gid)?;
    let ext = NostrGroupDataExtension::from_group(&g).map_err(|e| e.to_string())?;
    let nostr_group_id = ext.nostr_group_id;
    let own_pk = {
        let leaf = g.own_leaf().ok_or("no own leaf")?;
        let c = BasicCredential::try_from(leaf.credential().clone()).map_err(|e| e.to_string())?;
        c.identity().to_vec()
    };
    let provider = &mdk.provider;
    let mut b = g.commit_builder();
    let mut consume = false;
    match kind {
        RogueCommit::Add => {
            let kp = key_package.ok_or("no key package")?;
            b = b.propose_adds([kp]);
        }
        RogueCommit::Remove | RogueCommit::Mixed => {
            let t = target_identity_hex.ok_or("no target")?;
            let g2 = mdk.load_mls_group(gid).map_err(|e| e.to_string())?.ok_or("no group")?;
            let idx = leaf_index_of(&g2, t).ok_or("target not a member")?;
            b = b.propose_removals([idx]);
            if kind == RogueCommit::Mixed {
                b = b.force_self_update(true);
            }
        }
        RogueCommit::GceRename | RogueCommit::GceSelfPromote => {
            let mut e2 = ext.clone();
            if kind == RogueCommit::GceRename {
                e2.name = format!("{}-rogue", e2.name);
            } else {
                let pk = nostr::PublicKey::from_slice(&own_pk).map_err(|e| e.to_string())?;
                e2.admins.insert(pk);
            }
            let bytes = e2.verif_to_tls_bytes().map_err(|e| e.to_string())?;
            let g2 = mdk.load_mls_group(gid).map_err(|e| e.to_string())?.ok_or("no group")?;
            let mut exts = g2.extensions().clone();
            exts.add_or_replace(Extension::Unknown(0xF2EE, UnknownExtension(bytes)))
                .map_err(|e| e.to_string())?;
            b = b.propose_group_context_extensions(exts).map_err(|e| e.to_string())?;
        }
        RogueCommit::SelfUpdate => {
            b = b.force_self_update(true);
        }
        RogueCommit::ForeignIdentity => {
            let t = target_identity_hex.ok_or("no target")?;
            let id = hex::decode(t).map_err(|e| e.to_string())?;
            let cwk = CredentialWithKey {
                credential: BasicCredential::new(id).into(),
                signature_key: signer.public().into(),
            };
            b = b
                .force_self_update(true)
                .leaf_node_parameters(LeafNodeParameters::builder().with_credential_with_key(cwk).build());
        }
        RogueCommit::MalformedIdentity(how) => {
            let id: Vec<u8> = match how % 4 {
                0 => vec![],
                1 => own_pk[..31.min(own_pk.len())].to_vec(),
                2 => hex::encode(&own_pk).into_bytes(),
                _ => {
                    let mut v = own_pk.clone();
                    v.push(7);
                    v
                }
            };
            let cwk = CredentialWithKey {
                credential: BasicCredential::new(id).into(),
                signature_key: signer.public().into(),
            };
            b = b
                .force_self_update(true)
                .leaf_node_parameters(LeafNodeParameters::builder().with_credential_with_key(cwk).build());
        }
        RogueCommit::PendingByRef => {
            consume = true;
        }
        RogueCommit::Empty => {}
    }
    let bundle = b
        .consume_proposal_store(consume)
        .load_psks(provider.storage())
        .map_err(|e| e.to_string())?
        .build(provider.rand(), provider.crypto(), &signer, |_| true)
        .map_err(|e| format!("build: {e}"))?
        .stage_commit(provider)
        .map_err(|e| format!("stage: {e}"))?;
    let (commit, welcome, _) = bundle.into_contents();
    let mls_bytes = commit.tls_serialize_detached().map_err(|e| e.to_string())?;
    let welcome = match welcome {
        Some(w) => Some(
            MlsMessageOut::from_welcome(w, ProtocolVersion::default())
                .tls_serialize_detached()
                .map_err(|e| e.to_string())?,
        ),
        None => None,
    };
    // leave the client's own state as it was
    let mut g3 = mdk.load_mls_group(gid).map_err(|e| e.to_string())?.ok_or("no group")?;
    let _ = g3.clear_pending_commit(provider.storage());
    Ok(Built {
        mls_bytes,
        secret,
        nostr_group_id,
        welcome,
    })
}

pub fn build_proposal<S: MdkStorageProvider>(
    mdk: &MDK<S>,
    gid: &GroupId,
    kind: RogueProposal,
    target_identity_hex: Option<&str>,
    key_package: Option<KeyPackage>,
) -> Result<Built, String> {
    let mut g = mdk
        .load_mls_group(gid)
        .map_err(|e| e.to_string())?
        .ok_or("no group")?;
    let signer = own_signer(mdk, &g)?;
    let secret = current_exporter_secret(mdk, gid)?;
    let ext = NostrGroupDataExtension::from_group(&g).map_err(|e| e.to_string())?;
    let provider = &mdk.provider;
    let (msg, pref) = match kind {
        RogueProposal::Remove => {
            let t = target_identity_hex.ok_or("no target")?;
            let idx = leaf_index_of(&g, t).ok_or("target not a member")?;
            g.propose_remove_member(provider, &signer, idx).map_err(|e| e.to_string())?
        }
        RogueProposal::Add => {
            let kp = key_package.ok_or("no key package")?;
            g.propose_add_member(provider, &signer, &kp).map_err(|e| e.to_string())?
        }
        RogueProposal::GceRename => {
            let mut e2 = ext.clone();
            e2.name = format!("{}-proposed", e2.name);
            let bytes = e2.verif_to_tls_bytes().map_err(|e| e.to_string())?;
            let mut exts = g.extensions().clone();
            exts.add_or_replace(Extension::Unknown(0xF2EE, UnknownExtension(bytes)))
                .map_err(|e| e.to_string())?;
            g.propose_group_context_extensions(provider, exts, &signer)
                .map_err(|e| e.to_string())?
        }
        RogueProposal::SelfUpdate => g
            .propose_self_update(provider, &signer, LeafNodeParameters::default())
            .map_err(|e| e.to_string())?,
        RogueProposal::UpdateForeignIdentity => {
            let t = target_identity_hex.ok_or("no target")?;
            let id = hex::decode(t).map_err(|e| e.to_string())?;
            let cwk = CredentialWithKey {
                credential: BasicCredential::new(id).into(),
                signature_key: signer.public().into(),
            };
            g.propose_self_update(provider, &signer, LeafNodeParameters::builder().with_credential_with_key(cwk).build())
                .map_err(|e| e.to_string())?
        }
    };
    let mls_bytes = msg.tls_serialize_detached().map_err(|e| e.to_string())?;
    // take the proposal out of the own queue again
    let _ = g.remove_pending_proposal(provider.storage(), &pref);
    Ok(Built {
        mls_bytes,
        secret,
        nostr_group_id: ext.nostr_group_id,
        welcome: None,
    })
}
