//! An in-memory credential store for the keyring-managed constructor, with one fault that the
//! mock store of keyring-core cannot produce: the *write* of a fresh key fails (locked keychain,
//! denied access) after the reads that precede it have answered "no entry".

use std::any::Any;
use std::collections::{HashMap, HashSet};
use std::sync::{Arc, Mutex, OnceLock};

use keyring_core::api::{CredentialApi, CredentialStoreApi};
use keyring_core::{Credential, Entry, Error as KeyringError, Result as KeyringResult};

type Id = (String, String);

#[derive(Debug, Default)]
pub struct Shared {
    secrets: Mutex<HashMap<Id, Vec<u8>>>,
    fail_next_write: Mutex<HashSet<Id>>,
}

#[derive(Debug)]
struct Store {
    shared: Arc<Shared>,
}

#[derive(Debug)]
struct Cred {
    id: Id,
    shared: Arc<Shared>,
}

impl CredentialApi for Cred {
    fn set_secret(&self, secret: &[u8]) -> KeyringResult<()> {
        if self.shared.fail_next_write.lock().unwrap().remove(&self.id) {
            return Err(KeyringError::PlatformFailure("the keychain is locked (injected fault)".into()));
        }
        self.shared.secrets.lock().unwrap().insert(self.id.clone(), secret.to_vec());
        Ok(())
    }
    fn get_secret(&self) -> KeyringResult<Vec<u8>> {
        self.shared.secrets.lock().unwrap().get(&self.id).cloned().ok_or(KeyringError::NoEntry)
    }
    fn delete_credential(&self) -> KeyringResult<()> {
        self.shared.secrets.lock().unwrap().remove(&self.id).map(|_| ()).ok_or(KeyringError::NoEntry)
    }
    fn get_credential(&self) -> KeyringResult<Option<Arc<Credential>>> {
        Ok(None)
    }
    fn get_specifiers(&self) -> Option<(String, String)> {
        Some(self.id.clone())
    }
    fn as_any(&self) -> &dyn Any {
        self
    }
    fn debug_fmt(&self, f: &mut std::fmt::Formatter<'_>) -> std::fmt::Result {
        std::fmt::Debug::fmt(self, f)
    }
}

impl CredentialStoreApi for Store {
    fn vendor(&self) -> String {
        "vcheck in-memory store".to_string()
    }
    fn id(&self) -> String {
        "vcheck-1".to_string()
    }
    fn build(&self, service: &str, user: &str, _modifiers: Option<&HashMap<&str, &str>>) -> KeyringResult<Entry> {
        Ok(Entry::new_with_credential(Arc::new(Cred { id: (service.to_string(), user.to_string()), shared: self.shared.clone() })))
    }
    fn as_any(&self) -> &dyn Any {
        self
    }
    fn debug_fmt(&self, f: &mut std::fmt::Formatter<'_>) -> std::fmt::Result {
        std::fmt::Debug::fmt(self, f)
    }
}

static SHARED: OnceLock<Arc<Shared>> = OnceLock::new();

/// Installs the store as the process-wide default (once).
pub fn install() -> Arc<Shared> {
    SHARED
        .get_or_init(|| {
            let shared = Arc::new(Shared::default());
            keyring_core::set_default_store(Arc::new(Store { shared: shared.clone() }));
            shared
        })
        .clone()
}

/// The next write of this entry fails (once).
pub fn fail_next_write(service: &str, user: &str) {
    install().fail_next_write.lock().unwrap().insert((service.to_string(), user.to_string()));
}

/// Disarms a fault that was not consumed; true if it was still armed.
pub fn disarm(service: &str, user: &str) -> bool {
    install().fail_next_write.lock().unwrap().remove(&(service.to_string(), user.to_string()))
}
