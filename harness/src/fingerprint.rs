//! Observable state of a client / group, as used by the oracles.
//!
//! Everything here is read through the public API of mdk-core (`get_group`, `get_relays`,
//! `get_messages`, `load_mls_group` (feature `debug-examples`), `pending_member_changes`).

use mdk_core::MDK;
use mdk_core::extension::NostrGroupDataExtension;
use mdk_storage_traits::groups::{MessageSortOrder, Pagination};
use mdk_storage_traits::{GroupId, MdkStorageProvider};
use openmls::prelude::BasicCredential;
use serde::{Deserialize, Serialize};

#[derive(Clone, Debug, PartialEq, Eq, Hash, PartialOrd, Ord, Serialize, Deserialize)]
pub struct StateKey {
    pub epoch: u64,
    pub auth: String,
}

impl StateKey {
    pub fn short(&self) -> String {
        format!("e{}:{}", self.epoch, &self.auth[..8.min(self.auth.len())])
    }
}

#[derive(Clone, Debug, PartialEq, Eq, Serialize)]
pub struct ExtProj {
    pub version: u16,
    pub nostr_group_id: String,
    pub name: String,
    pub description: String,
    pub admins: Vec<String>,
    pub relays: Vec<String>,
    pub image_hash: Option<String>,
    pub image_key: Option<String>,
    pub image_nonce: Option<String>,
    pub image_upload_key: Option<String>,
}

#[derive(Clone, Debug, PartialEq, Eq, Serialize)]
pub struct RecordProj {
    pub state: String,
    pub epoch: u64,
    pub nostr_group_id: String,
    pub name: String,
    pub description: String,
    pub admins: Vec<String>,
    pub image_hash: Option<String>,
    pub image_key: Option<String>,
    pub image_nonce: Option<String>,
}

/// What must be equal across all members of a converged group.
#[derive(Clone, Debug, PartialEq, Eq, Serialize)]
pub struct GroupLevel {
    pub epoch: u64,
    pub auth: String,
    pub members: Vec<(u32, String)>,
    pub ext: ExtProj,
    pub relays: Vec<String>,
    pub record: RecordProj,
}

#[derive(Clone, Debug, PartialEq, Eq, Serialize)]
pub struct MsgProj {
    pub id: String,
    pub pubkey: String,
    pub kind: u16,
    pub created_at: u64,
    pub tags: String,
    pub content: String,
    pub state: String,
    pub epoch: Option<u64>,
    pub wrapper: String,
    pub processed_at: u64,
    pub event_json: String,
}

#[derive(Clone, Debug, PartialEq, Eq, Serialize)]
pub struct LastMsg {
    pub id: Option<String>,
    pub at: Option<u64>,
    pub processed_at: Option<u64>,
}

/// Everything observable about one group at one client.
#[derive(Clone, Debug, PartialEq, Eq, Serialize)]
pub struct Full {
    pub present: bool,
    pub level: Option<GroupLevel>,
    pub mls_error: Option<String>,
    pub pending_adds: Vec<String>,
    pub pending_removes: Vec<String>,
    pub pending_proposal_count: usize,
    pub pending_commit: bool,
    pub own_leaf: Option<u32>,
    /// what the MLS state itself says: false once the own removal has been merged
    pub mls_active: Option<bool>,
    pub self_update: String,
    pub last: LastMsg,
    pub msgs_created: Vec<MsgProj>,
    pub msgs_processed: Vec<MsgProj>,
    /// names of the group's stored rollback snapshots ("<epoch>_<commit id>"), sorted
    pub snapshots: Vec<String>,
}

impl Full {
    /// Copy with wall-clock dependent fields erased (for twin / cross-run comparisons).
    pub fn without_clock(&self) -> Full {
        let mut f = self.clone();
        for m in f.msgs_created.iter_mut().chain(f.msgs_processed.iter_mut()) {
            m.processed_at = 0;
        }
        // the processed-at order itself is wall-clock dependent
        f.msgs_processed.sort_by(|a, b| a.id.cmp(&b.id));
        // with equal created_at the created-at order falls back to processed_at: normalise
        f.msgs_created.sort_by(|a, b| (b.created_at, &b.id).cmp(&(a.created_at, &a.id)));
        f.last.processed_at = f.last.processed_at.map(|_| 0);
        // which of several messages with the newest created_at is "last" depends on processed_at
        if let Some(at) = f.last.at {
            if f.msgs_created.iter().filter(|m| m.created_at == at).count() > 1 {
                f.last.id = Some("<tie on created_at>".into());
            }
        }
        if f.self_update.starts_with("CompletedAt") {
            f.self_update = "CompletedAt".into();
        }
        f
    }

    /// The set view of messages (order-free), clock erased.
    pub fn msg_set(&self) -> Vec<MsgProj> {
        let mut v: Vec<MsgProj> = self
            .msgs_created
            .iter()
            .cloned()
            .map(|mut m| {
                m.processed_at = 0;
                m
            })
            .collect();
        v.sort_by(|a, b| a.id.cmp(&b.id));
        v
    }

    pub fn state_key(&self) -> Option<StateKey> {
        self.level.as_ref().map(|l| StateKey {
            epoch: l.epoch,
            auth: l.auth.clone(),
        })
    }
}

/// the first `n` bytes of an ASCII string (fewer if it is shorter), for messages
pub fn sh(s: &str, n: usize) -> &str {
    let mut k = n.min(s.len());
    while k > 0 && !s.is_char_boundary(k) {
        k -= 1;
    }
    &s[..k]
}

pub fn ext_proj(ext: &NostrGroupDataExtension) -> ExtProj {
    ExtProj {
        version: ext.version,
        nostr_group_id: hex::encode(ext.nostr_group_id),
        name: ext.name.clone(),
        description: ext.description.clone(),
        admins: ext.admins.iter().map(|p| p.to_hex()).collect(),
        relays: ext.relays.iter().map(|r| r.to_string()).collect(),
        image_hash: ext.image_hash.map(hex::encode),
        image_key: ext.image_key.map(hex::encode),
        image_nonce: ext.image_nonce.map(hex::encode),
        image_upload_key: ext.image_upload_key.map(hex::encode),
    }
}

pub fn record_proj(g: &mdk_storage_traits::groups::types::Group) -> RecordProj {
    RecordProj {
        state: g.state.as_str().to_string(),
        epoch: g.epoch,
        nostr_group_id: hex::encode(g.nostr_group_id),
        name: g.name.clone(),
        description: g.description.clone(),
        admins: g.admin_pubkeys.iter().map(|p| p.to_hex()).collect(),
        image_hash: g.image_hash.map(hex::encode),
        image_key: g.image_key.as_ref().map(|k| hex::encode(k.as_ref())),
        image_nonce: g.image_nonce.as_ref().map(|k| hex::encode(k.as_ref())),
    }
}

pub fn msg_proj(m: &mdk_storage_traits::messages::types::Message) -> MsgProj {
    use nostr::JsonUtil;
    MsgProj {
        id: m.id.to_hex(),
        pubkey: m.pubkey.to_hex(),
        kind: m.kind.as_u16(),
        created_at: m.created_at.as_secs(),
        tags: serde_json::to_string(&m.tags).unwrap_or_default(),
        content: m.content.clone(),
        state: m.state.as_str().to_string(),
        epoch: m.epoch,
        wrapper: m.wrapper_event_id.to_hex(),
        processed_at: m.processed_at.as_secs(),
        event_json: m.event.as_json(),
    }
}

pub fn state_key_of<S: MdkStorageProvider>(mdk: &MDK<S>, gid: &GroupId) -> Option<StateKey> {
    let g = mdk.load_mls_group(gid).ok()??;
    Some(StateKey {
        epoch: g.epoch().as_u64(),
        auth: hex::encode(g.epoch_authenticator().as_slice()),
    })
}

pub fn group_level<S: MdkStorageProvider>(
    mdk: &MDK<S>,
    gid: &GroupId,
) -> Result<Option<GroupLevel>, String> {
    let rec = match mdk.get_group(gid).map_err(|e| format!("get_group: {e}"))? {
        Some(r) => r,
        None => return Ok(None),
    };
    let g = match mdk
        .load_mls_group(gid)
        .map_err(|e| format!("load_mls_group: {e}"))?
    {
        Some(g) => g,
        None => return Err("record present but MLS group missing".into()),
    };
    let ext = NostrGroupDataExtension::from_group(&g).map_err(|e| format!("extension: {e}"))?;
    let mut members = Vec::new();
    for m in g.members() {
        let id = BasicCredential::try_from(m.credential.clone())
            .map(|c| hex::encode(c.identity()))
            .unwrap_or_else(|_| "<non-basic>".into());
        members.push((m.index.u32(), id));
    }
    let relays = mdk
        .get_relays(gid)
        .map_err(|e| format!("get_relays: {e}"))?
        .iter()
        .map(|r| r.to_string())
        .collect();
    Ok(Some(GroupLevel {
        epoch: g.epoch().as_u64(),
        auth: hex::encode(g.epoch_authenticator().as_slice()),
        members,
        ext: ext_proj(&ext),
        relays,
        record: record_proj(&rec),
    }))
}

pub fn all_messages<S: MdkStorageProvider>(
    mdk: &MDK<S>,
    gid: &GroupId,
    order: MessageSortOrder,
) -> Result<Vec<MsgProj>, String> {
    let mut out = Vec::new();
    let mut off = 0usize;
    loop {
        let page = mdk
            .get_messages(
                gid,
                Some(Pagination::with_sort_order(Some(10_000), Some(off), order)),
            )
            .map_err(|e| format!("get_messages: {e}"))?;
        let n = page.len();
        out.extend(page.iter().map(msg_proj));
        if n < 10_000 {
            break;
        }
        off += n;
    }
    Ok(out)
}

pub fn full<S: MdkStorageProvider>(mdk: &MDK<S>, gid: &GroupId) -> Full {
    let rec = mdk.get_group(gid).ok().flatten();
    let mut f = Full {
        present: rec.is_some(),
        level: None,
        mls_error: None,
        pending_adds: vec![],
        pending_removes: vec![],
        pending_proposal_count: 0,
        pending_commit: false,
        own_leaf: None,
        mls_active: None,
        self_update: String::new(),
        last: LastMsg {
            id: None,
            at: None,
            processed_at: None,
        },
        msgs_created: vec![],
        msgs_processed: vec![],
        snapshots: vec![],
    };
    let Some(rec) = rec else {
        return f;
    };
    f.self_update = format!("{:?}", rec.self_update_state);
    f.last = LastMsg {
        id: rec.last_message_id.map(|i| i.to_hex()),
        at: rec.last_message_at.map(|t| t.as_secs()),
        processed_at: rec.last_message_processed_at.map(|t| t.as_secs()),
    };
    match group_level(mdk, gid) {
        Ok(l) => f.level = l,
        Err(e) => f.mls_error = Some(e),
    }
    if let Ok(Some(g)) = mdk.load_mls_group(gid) {
        f.pending_proposal_count = g.pending_proposals().count();
        f.pending_commit = g.pending_commit().is_some();
        f.own_leaf = g.own_leaf().map(|_| g.own_leaf_index().u32());
        f.mls_active = Some(g.is_active());
    }
    if let Ok(ch) = mdk.pending_member_changes(gid) {
        f.pending_adds = ch.additions.iter().map(|p| p.to_hex()).collect();
        f.pending_removes = ch.removals.iter().map(|p| p.to_hex()).collect();
        f.pending_adds.sort();
        f.pending_removes.sort();
    }
    {
        use openmls_traits::OpenMlsProvider;
        let mut names: Vec<String> = mdk
            .provider
            .storage()
            .list_group_snapshots(gid)
            .unwrap_or_default()
            .into_iter()
            .map(|(n, _)| {
                // snap_<group id hex>_<epoch>_<commit id hex>
                let mut it = n.rsplitn(3, '_');
                let id = it.next().unwrap_or("");
                let ep = it.next().unwrap_or("");
                format!("{ep}_{}", &id[..8.min(id.len())])
            })
            .collect();
        names.sort();
        f.snapshots = names;
    }
    f.msgs_created = all_messages(mdk, gid, MessageSortOrder::CreatedAtFirst).unwrap_or_default();
    f.msgs_processed =
        all_messages(mdk, gid, MessageSortOrder::ProcessedAtFirst).unwrap_or_default();
    f
}
