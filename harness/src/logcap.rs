//! Capture of every `tracing` event emitted on the current thread (all levels, all targets).

use std::cell::RefCell;
use std::fmt::Write as _;

use tracing::field::{Field, Visit};
use tracing::span::{Attributes, Id, Record};
use tracing::{Event, Level, Metadata, Subscriber};

#[derive(Clone, Debug)]
pub struct LogRec {
    pub level: Level,
    pub target: String,
    pub text: String,
}

thread_local! {
    static BUF: RefCell<Option<Vec<LogRec>>> = const { RefCell::new(None) };
}

struct V<'a>(&'a mut String);
impl Visit for V<'_> {
    fn record_debug(&mut self, field: &Field, value: &dyn std::fmt::Debug) {
        let _ = write!(self.0, "{}={:?} ", field.name(), value);
    }
    fn record_str(&mut self, field: &Field, value: &str) {
        let _ = write!(self.0, "{}={} ", field.name(), value);
    }
}

pub struct Capture;

impl Subscriber for Capture {
    fn enabled(&self, _: &Metadata<'_>) -> bool {
        BUF.with(|b| b.borrow().is_some())
    }
    fn new_span(&self, attrs: &Attributes<'_>) -> Id {
        // span fields are log output too
        BUF.with(|b| {
            if let Some(buf) = b.borrow_mut().as_mut() {
                let mut s = String::new();
                attrs.record(&mut V(&mut s));
                buf.push(LogRec {
                    level: *attrs.metadata().level(),
                    target: attrs.metadata().target().to_string(),
                    text: format!("span {} {}", attrs.metadata().name(), s),
                });
            }
        });
        Id::from_u64(1)
    }
    fn record(&self, _: &Id, values: &Record<'_>) {
        BUF.with(|b| {
            if let Some(buf) = b.borrow_mut().as_mut() {
                let mut s = String::new();
                values.record(&mut V(&mut s));
                buf.push(LogRec {
                    level: Level::TRACE,
                    target: "span-record".into(),
                    text: s,
                });
            }
        });
    }
    fn record_follows_from(&self, _: &Id, _: &Id) {}
    fn event(&self, event: &Event<'_>) {
        BUF.with(|b| {
            if let Some(buf) = b.borrow_mut().as_mut() {
                let mut s = String::new();
                event.record(&mut V(&mut s));
                buf.push(LogRec {
                    level: *event.metadata().level(),
                    target: event.metadata().target().to_string(),
                    text: s,
                });
            }
        });
    }
    fn enter(&self, _: &Id) {}
    fn exit(&self, _: &Id) {}
}

pub fn install() {
    let _ = tracing::subscriber::set_global_default(Capture);
}

/// start capturing on this thread (drops anything captured before)
pub fn start() {
    BUF.with(|b| *b.borrow_mut() = Some(Vec::new()));
}

/// take what was captured since `start` / the last `drain`, keep capturing
pub fn drain() -> Vec<LogRec> {
    BUF.with(|b| match b.borrow_mut().as_mut() {
        Some(v) => std::mem::take(v),
        None => vec![],
    })
}

pub fn stop() -> Vec<LogRec> {
    BUF.with(|b| b.borrow_mut().take().unwrap_or_default())
}
