//! proptest strategies for plans.

use proptest::prelude::*;

use crate::world::{Apply, BackendKind, Cfg, DataChange, Op, Plan, Regime, Setup};

#[derive(Clone, Debug)]
pub struct Weights {
    pub msg: u32,
    pub self_update: u32,
    pub data: u32,
    pub add: u32,
    pub remove: u32,
    pub leave: u32,
    pub deliver: u32,
    pub redeliver: u32,
    pub self_echo: u32,
    pub catch_up: u32,
    pub sync: u32,
    pub merge_pending: u32,
    pub clear_pending: u32,
    pub welcome: u32,
    pub restart: u32,
    /// weight of Apply::Immediate against 4 for Echo
    pub immediate: u32,
    pub max_ts: u8,
    pub rogue_commit: u32,
    pub rogue_proposal: u32,
    pub rogue_msg: u32,
    pub replay: u32,
    pub hostile: u32,
    /// traffic of / confusion with the second group (only useful with `SetupOpts::side_percent`)
    pub side: u32,
    /// further solo groups, half of them with a relay list SQLite cannot store
    pub solo_group: u32,
    /// bursts of application messages by one member
    pub burst: u32,
    /// stored snapshots pruned behind a client's back (only where divergence is not judged)
    pub vanish: u32,
    /// `add_members` may re-invite a member that was removed earlier (not where the chain oracle
    /// judges every former member: a member removed by a commit that later loses the race and then
    /// re-invited on that branch is the listed O22 situation in a new guise)
    pub reinvite: bool,
    /// `add_members` may be given a second key package of somebody who already is a member (the
    /// identity then holds two leaves; only C05 judges what a removal by name does to them)
    pub second_leaf: bool,
}

impl Default for Weights {
    fn default() -> Self {
        Weights {
            msg: 3,
            self_update: 5,
            data: 5,
            add: 1,
            remove: 1,
            leave: 1,
            deliver: 12,
            redeliver: 2,
            self_echo: 4,
            catch_up: 4,
            sync: 1,
            merge_pending: 1,
            clear_pending: 1,
            welcome: 2,
            restart: 0,
            immediate: 1,
            max_ts: 5,
            rogue_commit: 0,
            rogue_proposal: 0,
            rogue_msg: 0,
            replay: 0,
            hostile: 0,
            side: 0,
            solo_group: 0,
            burst: 0,
            vanish: 0,
            reinvite: false,
            second_leaf: false,
        }
    }
}

pub fn apply_strategy(immediate: u32) -> BoxedStrategy<Apply> {
    if immediate == 0 {
        Just(Apply::Echo).boxed()
    } else {
        prop_oneof![4 => Just(Apply::Echo), immediate => Just(Apply::Immediate)].boxed()
    }
}

pub fn data_change() -> impl Strategy<Value = DataChange> {
    prop_oneof![
        3 => (0u8..4).prop_map(DataChange::Name),
        2 => (0u8..4).prop_map(DataChange::Description),
        2 => (0u8..6).prop_map(DataChange::Relays),
        1 => (0u8..7).prop_map(DataChange::RelayShapes),
        2 => (0u8..4).prop_map(DataChange::RotateId),
        1 => (0u8..4).prop_map(DataChange::Image),
        1 => Just(DataChange::ClearImage),
        2 => (1u8..16, 0u8..4).prop_map(|(part, n)| DataChange::ImagePart(part, n)),
        2 => any::<u16>().prop_map(DataChange::ToggleAdmin),
    ]
}

pub fn op_strategy(w: &Weights) -> BoxedStrategy<Op> {
    let m = any::<u16>();
    let ts = 0u8..=w.max_ts;
    let ap = apply_strategy(w.immediate);
    let mut v: Vec<(u32, BoxedStrategy<Op>)> = vec![];
    v.push((
        w.msg,
        (m, 0u8..3, 0u8..3, 0u8..6)
            .prop_map(|(m, kind, at, tag)| Op::Msg { m, kind, at, tag })
            .boxed(),
    ));
    v.push((
        w.self_update,
        (m, ts.clone(), ap.clone())
            .prop_map(|(m, ts, apply)| Op::SelfUpdate { m, ts, apply })
            .boxed(),
    ));
    v.push((
        w.data,
        (m, ts.clone(), ap.clone(), data_change())
            .prop_map(|(m, ts, apply, change)| Op::Data {
                m,
                ts,
                apply,
                change,
            })
            .boxed(),
    ));
    v.push((
        w.add,
        (m, ts.clone(), ap.clone(), if w.second_leaf { prop_oneof![3 => Just(0u8), 1 => Just(1u8), 2 => Just(2u8), 2 => Just(3u8)].boxed() } else if w.reinvite { prop_oneof![3 => Just(0u8), 1 => Just(1u8), 2 => Just(2u8)].boxed() } else { prop_oneof![3 => Just(0u8), 1 => Just(1u8)].boxed() })
            .prop_map(|(m, ts, apply, extra)| Op::Add { m, ts, apply, extra })
            .boxed(),
    ));
    v.push((
        w.remove,
        (m, any::<u16>(), ts.clone(), ap.clone(), prop_oneof![5 => Just(0u8), 2 => Just(1u8), 1 => Just(2u8)])
            .prop_map(|(m, target, ts, apply, extra)| Op::Remove {
                m,
                target,
                ts,
                apply,
                extra,
            })
            .boxed(),
    ));
    v.push((
        w.leave,
        (m, ts.clone()).prop_map(|(m, ts)| Op::Leave { m, ts }).boxed(),
    ));
    v.push((
        w.deliver,
        (m, any::<u16>())
            .prop_map(|(m, sel)| Op::Deliver { m, sel })
            .boxed(),
    ));
    v.push((
        w.redeliver,
        (m, any::<u16>(), 0u8..3)
            .prop_map(|(m, sel, times)| Op::Redeliver { m, sel, times })
            .boxed(),
    ));
    v.push((w.self_echo, m.prop_map(|m| Op::SelfEcho { m }).boxed()));
    v.push((w.catch_up, m.prop_map(|m| Op::CatchUp { m }).boxed()));
    v.push((w.sync, Just(Op::Sync).boxed()));
    v.push((w.merge_pending, m.prop_map(|m| Op::MergePending { m }).boxed()));
    v.push((w.clear_pending, m.prop_map(|m| Op::ClearPending { m }).boxed()));
    v.push((
        w.welcome,
        (m, prop::bool::weighted(0.85))
            .prop_map(|(j, accept)| Op::Welcome { j, accept })
            .boxed(),
    ));
    v.push((w.restart, m.prop_map(|m| Op::Restart { m }).boxed()));
    {
        use crate::rogue::{RogueCommit as C, RogueProposal as P};
        let ck = prop::sample::select(vec![
            C::Add, C::Remove, C::GceRename, C::GceSelfPromote, C::SelfUpdate, C::ForeignIdentity, C::Mixed, C::PendingByRef, C::Empty,
            C::MalformedIdentity(0), C::MalformedIdentity(1), C::MalformedIdentity(2), C::MalformedIdentity(3),
        ]);
        v.push((
            w.rogue_commit,
            (m, ck, ts.clone(), any::<u16>())
                .prop_map(|(m, kind, ts, target)| Op::RogueCommit { m, kind, ts, target })
                .boxed(),
        ));
        let pk = prop::sample::select(vec![P::Remove, P::Remove, P::Add, P::GceRename, P::SelfUpdate, P::UpdateForeignIdentity]);
        v.push((
            w.rogue_proposal,
            (m, pk, ts.clone(), any::<u16>())
                .prop_map(|(m, kind, ts, target)| Op::RogueProposal { m, kind, ts, target })
                .boxed(),
        ));
        v.push((
            w.rogue_msg,
            (m, 0u8..4, 0u8..4, any::<u16>(), prop_oneof![3 => 0u8..3, 1 => 3u8..12])
                .prop_map(|(m, pubkey_sel, id_sel, sel, kind)| Op::RogueMsg { m, pubkey_sel, id_sel, sel, kind })
                .boxed(),
        ));
        v.push((w.replay, (m, any::<u16>()).prop_map(|(m, sel)| Op::Replay { m, sel }).boxed()));
        use crate::world::HostileMut as H;
        let hm = prop_oneof![
            prop::sample::select(vec![
                H::KindChange, H::TsZero, H::TsFarFuture, H::TsTooOld, H::NoHTag, H::TwoHTags, H::HNotHex, H::HUpperCase, H::HShort,
                H::HOfUnknownGroup, H::ContentNotBase64, H::ContentTruncated, H::ContentEmpty, H::InnerEmpty, H::HeaderGroupId, H::BackdatedCopy,
            ]),
            any::<u8>().prop_map(H::HSameLengthNonAscii),
            any::<u8>().prop_map(H::InnerRandom),
            any::<u16>().prop_map(H::InnerBitFlip),
            any::<u16>().prop_map(H::InnerBitFlip),
            any::<u8>().prop_map(H::InnerTruncate),
            any::<u8>().prop_map(H::InnerExtend),
            (-3i8..4).prop_map(|d| H::HeaderEpoch(if d == 0 { 1 } else { d })),
            (-3i8..4).prop_map(|d| H::HeaderEpoch(if d == 0 { -1 } else { d })),
            (0u8..3).prop_map(H::HeaderContentType),
        ];
        v.push((
            w.hostile,
            (m, any::<u16>(), any::<u16>(), hm).prop_map(|(m, v, sel, mutation)| Op::Hostile { m, v, sel, mutation }).boxed(),
        ));
    }
    {
        use crate::world::SideOp as S;
        let so = prop_oneof![
            4 => (any::<u16>(), ts.clone()).prop_map(|(m, ts)| S::Msg { m, ts }),
            3 => any::<u16>().prop_map(|m| S::CrossPost { m }),
            3 => (0u8..4, ts.clone()).prop_map(|(kind, ts)| S::Commit { kind, ts }),
            2 => (any::<u16>(), any::<u16>()).prop_map(|(m, sel)| S::ToNonMember { m, sel }),
            3 => (any::<u16>(), any::<u16>()).prop_map(|(v, sel)| S::TaggedAsMain { v, sel }),
            3 => (any::<u16>(), any::<u16>()).prop_map(|(v, sel)| S::MainTaggedAsSide { v, sel }),
            2 => any::<u16>().prop_map(|sel| S::MainToSideOnly { sel }),
        ];
        v.push((w.side, so.prop_map(Op::Side).boxed()));
    }
    v.push((w.vanish, (any::<u16>(), any::<bool>()).prop_map(|(m, only_oldest)| Op::SnapshotsVanish { m, only_oldest }).boxed()));
    v.push((w.burst, (any::<u16>(), 3u8..14).prop_map(|(m, n)| Op::Burst { m, n }).boxed()));
    v.push((w.solo_group, (any::<u16>(), any::<bool>()).prop_map(|(m, collide)| Op::SoloGroup { m, collide }).boxed()));
    let v: Vec<(u32, BoxedStrategy<Op>)> = v.into_iter().filter(|(w, _)| *w > 0).collect();
    proptest::strategy::Union::new_weighted(v).boxed()
}

#[derive(Clone, Debug)]
pub struct SetupOpts {
    pub min_members: u8,
    pub max_members: u8,
    /// probability (percent) that a given client uses SQLite
    pub sql_percent: u32,
    pub all_sql: bool,
    pub spares: u8,
    pub regimes: Vec<Regime>,
    pub retention: std::ops::RangeInclusive<usize>,
    pub cfgs: Vec<Cfg>,
    pub with_reference: bool,
    pub twin: bool,
    /// probability (percent) that the world has a second live group
    pub side_percent: u32,
}

impl Default for SetupOpts {
    fn default() -> Self {
        SetupOpts {
            min_members: 2,
            max_members: 6,
            sql_percent: 0,
            all_sql: false,
            spares: 2,
            regimes: vec![Regime::Causal],
            retention: 5..=5,
            cfgs: vec![Cfg::default()],
            with_reference: true,
            twin: false,
            side_percent: 0,
        }
    }
}

pub fn setup_strategy(o: &SetupOpts) -> BoxedStrategy<Setup> {
    let o = o.clone();
    let backend: BoxedStrategy<BackendKind> = if o.all_sql {
        Just(BackendKind::Sql).boxed()
    } else if o.sql_percent == 0 {
        Just(BackendKind::Mem).boxed()
    } else {
        prop_oneof![
            (100 - o.sql_percent.min(99)) => Just(BackendKind::Mem),
            o.sql_percent.min(99) => Just(BackendKind::Sql)
        ]
        .boxed()
    };
    let regimes = o.regimes.clone();
    let cfgs = o.cfgs.clone();
    (
        o.min_members..=o.max_members,
        any::<u8>(),
        prop::collection::vec(backend, 10),
        prop::sample::select(regimes),
        o.retention.clone(),
        prop::sample::select(cfgs),
        (0u32..100, 1u8..=255),
    )
        .prop_map(move |(members, admin_mask, backends, regime, retention, mut cfg, (side_roll, side_mask))| {
            cfg.retention = retention;
            Setup {
                members,
                admin_mask,
                backends,
                spares: o.spares,
                cfg,
                regime,
                with_reference: o.with_reference,
                twin: o.twin,
                side: if side_roll < o.side_percent { side_mask } else { 0 },
            }
        })
        .boxed()
}

pub fn plan_strategy(
    o: &SetupOpts,
    w: &Weights,
    len: std::ops::Range<usize>,
) -> BoxedStrategy<Plan> {
    (setup_strategy(o), prop::collection::vec(op_strategy(w), len))
        .prop_map(|(setup, ops)| Plan { setup, ops })
        .boxed()
}

pub fn plan_strategy_with(
    o: &SetupOpts,
    w: &Weights,
    len: std::ops::Range<usize>,
) -> BoxedStrategy<Plan> {
    plan_strategy(o, w, len)
}

/// Directed prelude shared by C04 and C08: three clients in both groups; a message sent on the
/// branch that will lose a commit race is also posted into the second group (same message id
/// there); then the better commit arrives and the main group rolls back.
pub fn crosspost_rollback_prelude(p: &mut Plan, sql: bool) {
    use crate::world::{SideOp, BackendKind};
    p.setup.members = 3;
    p.setup.admin_mask = 1;
    p.setup.regime = Regime::Causal;
    p.setup.side = 0b0000_0111;
    p.setup.cfg.retention = p.setup.cfg.retention.max(2);
    if sql {
        p.setup.backends = vec![BackendKind::Sql; 10];
    }
    // local operations pick among the active clients c0, c1, c2; deliveries among all actors
    // (three members and the spares)
    let n_act = 3 + p.setup.spares as u32;
    let act = |i: u32| (((i << 16) / 3) + 1) as u16;
    let mem = |i: u32| (((i << 16) / n_act) + 1) as u16;
    let pre = vec![
        Op::Msg { m: act(0), kind: 0, at: 0, tag: 0 },
        Op::SelfUpdate { m: act(0), ts: 3, apply: Apply::Echo },
        Op::SelfEcho { m: mem(0) },
        Op::CatchUp { m: mem(2) },
        Op::Msg { m: act(0), kind: 0, at: 1, tag: 1 },
        Op::CatchUp { m: mem(2) },
        Op::Side(SideOp::CrossPost { m: 0 }),
        Op::SelfUpdate { m: act(1), ts: 1, apply: Apply::Echo },
        Op::CatchUp { m: mem(2) },
    ];
    p.ops.truncate(25);
    let tail = std::mem::take(&mut p.ops);
    p.ops = pre;
    p.ops.extend(tail);
}

/// Directed prelude (C03, C05, C08): a member's request to leave reaches the admin while the admin
/// holds a commit of its own whose publication then fails; the admin's next `add_members` commit
/// sweeps the queued removal in, and the newcomer takes over the leaver's leaf at once. The leaver
/// then processes a commit that removes it *and* re-populates its leaf.
pub fn leave_swept_into_add_prelude(p: &mut Plan, leaver: u8) {
    p.setup.members = 3;
    p.setup.admin_mask = 1;
    p.setup.regime = Regime::Causal;
    p.setup.side = 0;
    p.setup.spares = p.setup.spares.max(1);
    let n_act = 3 + p.setup.spares as u32;
    let act = |i: u32| (((i << 16) / 3) + 1) as u16;
    let mem = |i: u32| (((i << 16) / n_act) + 1) as u16;
    let l = 1 + (leaver % 2) as u32;
    let pre = vec![
        Op::SelfUpdate { m: act(0), ts: 2, apply: Apply::Echo },
        Op::Leave { m: act(l), ts: 2 },
        // the admin sees the request (the newest event it has not seen), not its own commit
        Op::Deliver { m: mem(0), sel: u16::MAX },
        Op::ClearPending { m: act(0) },
        Op::Add { m: act(0), ts: 2, apply: Apply::Echo, extra: 0 },
        Op::SelfEcho { m: mem(0) },
        Op::CatchUp { m: mem(l) },
        Op::CatchUp { m: mem(3 - l) },
        Op::Msg { m: act(0), kind: 0, at: 0, tag: 0 },
        Op::CatchUp { m: mem(l) },
    ];
    p.ops.truncate(25);
    let tail = std::mem::take(&mut p.ops);
    p.ops = pre;
    p.ops.extend(tail);
}

/// Directed prelude (C05): the admin adds a second key package of a member (that identity then
/// holds two leaves), everybody applies it, then the admin removes that member by name.
pub fn second_leaf_then_remove_prelude(p: &mut Plan, with_others: bool) {
    p.setup.members = p.setup.members.max(3);
    p.setup.regime = Regime::Causal;
    let n_act = p.setup.members as u32 + p.setup.spares as u32;
    let mem = |i: u32| (((i << 16) / n_act) + 1) as u16;
    let mut pre = vec![
        Op::Add { m: 0, ts: 1, apply: Apply::Echo, extra: 3 },
        Op::SelfEcho { m: mem(0) },
    ];
    for i in 1..p.setup.members as u32 {
        pre.push(Op::CatchUp { m: mem(i) });
    }
    // (the removal prefers an identity with two leaves; `extra` adds further names)
    pre.push(Op::Remove { m: 0, target: 0, ts: 2, apply: Apply::Echo, extra: if with_others { 2 } else { 1 } });
    pre.push(Op::SelfEcho { m: mem(0) });
    for i in 1..p.setup.members as u32 {
        pre.push(Op::CatchUp { m: mem(i) });
    }
    p.ops.truncate(25);
    let tail = std::mem::take(&mut p.ops);
    p.ops = pre;
    p.ops.extend(tail);
}

/// Directed prelude (C08): the relay set is emptied; a member asks to leave and only the creator
/// sees the request (and commits it: W); another admin changes the relays a little later (L). The
/// observer applies L, then meets W: the better commit makes it roll back to the epoch with the
/// empty relay set, and W itself cannot be applied there (the request never reached the observer).
/// What is stored must mirror the MLS state of the epoch it is back in.
pub fn empty_relays_rollback_prelude(p: &mut Plan, observer_sql: bool) {
    use crate::world::{BackendKind, DataChange};
    p.setup.members = 4;
    p.setup.admin_mask |= 1; // c1 is an admin too
    p.setup.regime = Regime::Unrestricted;
    p.setup.side = 0;
    p.setup.twin = false;
    p.setup.cfg.retention = p.setup.cfg.retention.max(2);
    if p.setup.backends.len() > 2 {
        p.setup.backends[2] = if observer_sql { BackendKind::Sql } else { BackendKind::Mem };
    }
    let n_act = 4 + p.setup.spares as u32;
    let act = |i: u32| (((i << 16) / 4) + 1) as u16;
    let mem = |i: u32| (((i << 16) / n_act) + 1) as u16;
    let pre = vec![
        Op::Data { m: act(0), ts: 0, apply: Apply::Echo, change: DataChange::RelayShapes(6) },
        Op::SelfEcho { m: mem(0) },
        Op::CatchUp { m: mem(1) },
        Op::CatchUp { m: mem(2) },
        Op::CatchUp { m: mem(3) },
        Op::Leave { m: act(3), ts: 0 },
        // the creator sees the request and commits it at once
        Op::Deliver { m: mem(0), sel: u16::MAX },
        Op::Data { m: act(1), ts: 5, apply: Apply::Echo, change: DataChange::Relays(2) },
        // the observer: the later commit first, then the earlier one (never the request)
        Op::Deliver { m: mem(2), sel: u16::MAX },
        Op::Deliver { m: mem(2), sel: u16::MAX },
    ];
    p.ops.truncate(25);
    let tail = std::mem::take(&mut p.ops);
    p.ops = pre;
    p.ops.extend(tail);
}

/// Directed prelude (C05): the admin creates a commit of its own (an addition or a rename) and has
/// not merged it yet when a member's request to leave arrives; then the admin's own commit comes
/// back from the relay and everybody catches up. The admin's operation must have done what it
/// named - no more (the leaver is still there unless somebody commits the request), no less.
pub fn leave_meets_pending_commit_prelude(p: &mut Plan, rename: bool) {
    use crate::world::DataChange;
    p.setup.members = 3;
    p.setup.admin_mask = 1;
    p.setup.regime = Regime::Causal;
    p.setup.side = 0;
    p.setup.spares = p.setup.spares.max(1);
    let n_act = 3 + p.setup.spares as u32;
    let act = |i: u32| (((i << 16) / 3) + 1) as u16;
    let mem = |i: u32| (((i << 16) / n_act) + 1) as u16;
    let own = if rename {
        Op::Data { m: act(0), ts: 1, apply: Apply::Echo, change: DataChange::Name(7) }
    } else {
        Op::Add { m: act(0), ts: 1, apply: Apply::Echo, extra: 0 }
    };
    let pre = vec![
        own,
        Op::Leave { m: act(1), ts: 2 },
        // the admin sees the request (the newest event), its own commit still unmerged
        Op::Deliver { m: mem(0), sel: u16::MAX },
        Op::SelfEcho { m: mem(0) },
        Op::CatchUp { m: mem(2) },
        Op::CatchUp { m: mem(1) },
        Op::CatchUp { m: mem(0) },
    ];
    p.ops.truncate(25);
    let tail = std::mem::take(&mut p.ops);
    p.ops = pre;
    p.ops.extend(tail);
}

/// Directed prelude (C01): a fork exactly as deep as the configured window. The creator's commit
/// K (earliest timestamp) stays unseen while another admin builds a chain of `retention` commits
/// on the same epoch; a bystander follows that chain, then both meet K: everybody must roll back
/// `retention` epochs and converge on K.
pub fn deep_fork_prelude(p: &mut Plan, longer: bool) {
    use crate::world::DataChange;
    p.setup.members = 3;
    p.setup.admin_mask |= 1;
    p.setup.regime = Regime::Unrestricted;
    p.setup.side = 0;
    p.setup.twin = false;
    p.setup.cfg.retention = if longer { 6 } else { 5 };
    let d = p.setup.cfg.retention as u32;
    let n_act = 3 + p.setup.spares as u32;
    let act = |i: u32| (((i << 16) / 3) + 1) as u16;
    let mem = |i: u32| (((i << 16) / n_act) + 1) as u16;
    let mut pre = vec![Op::Data { m: act(0), ts: 0, apply: Apply::Immediate, change: DataChange::Name(9) }];
    for _ in 0..d {
        pre.push(Op::SelfUpdate { m: act(1), ts: 3, apply: Apply::Immediate });
    }
    // the bystander takes the chain link by link (K stays first in its queue, untouched)
    for k in 0..d {
        let len = d + 1 - k; // K and the links not yet taken
        pre.push(Op::Deliver { m: mem(2), sel: (((1u32 << 16) / len) + 1) as u16 });
    }
    pre.push(Op::Deliver { m: mem(2), sel: 0 });
    pre.push(Op::CatchUp { m: mem(1) });
    pre.push(Op::CatchUp { m: mem(2) });
    p.ops.truncate(20);
    let tail = std::mem::take(&mut p.ops);
    p.ops = pre;
    p.ops.extend(tail);
}
