//! E2: a reference model of the storage contract and a three-way differential
//! (model / MdkMemoryStorage / MdkSqliteStorage) over generated operation sequences.

use std::collections::{BTreeMap, BTreeSet};

use mdk_storage_traits::groups::types::{
    Group, GroupExporterSecret, GroupState, SelfUpdateState,
};
use mdk_storage_traits::groups::{MAX_MESSAGE_LIMIT, MessageSortOrder, Pagination};
use mdk_storage_traits::messages::types::{
    Message, MessageState, ProcessedMessage, ProcessedMessageState,
};
use mdk_storage_traits::welcomes::types::{
    ProcessedWelcome, ProcessedWelcomeState, Welcome, WelcomeState,
};
use mdk_storage_traits::{GroupId, MdkStorageProvider, Secret};
use nostr::{EventId, Keys, Kind, PublicKey, RelayUrl, SecretKey, Tag, Tags, Timestamp, UnsignedEvent};
use openmls_traits::storage::{Entity, Key, traits};
use serde::{Deserialize, Serialize};
use serde_json::{Value, json};

pub const V: u16 = 1;

#[derive(Clone, Debug, PartialEq, Eq, Hash, PartialOrd, Ord, Serialize, Deserialize)]
pub struct Blob(pub Vec<u8>);
impl Key<V> for Blob {}
impl Entity<V> for Blob {}
impl traits::SignaturePublicKey<V> for Blob {}
impl traits::HashReference<V> for Blob {}
impl traits::PskId<V> for Blob {}
impl traits::EncryptionKey<V> for Blob {}
impl traits::EpochKey<V> for Blob {}
impl traits::QueuedProposal<V> for Blob {}
impl traits::TreeSync<V> for Blob {}
impl traits::GroupContext<V> for Blob {}
impl traits::InterimTranscriptHash<V> for Blob {}
impl traits::ConfirmationTag<V> for Blob {}
impl traits::SignatureKeyPair<V> for Blob {}
impl traits::PskBundle<V> for Blob {}
impl traits::HpkeKeyPair<V> for Blob {}
impl traits::GroupState<V> for Blob {}
impl traits::GroupEpochSecrets<V> for Blob {}
impl traits::LeafNodeIndex<V> for Blob {}
impl traits::MessageSecrets<V> for Blob {}
impl traits::ResumptionPskStore<V> for Blob {}
impl traits::KeyPackage<V> for Blob {}
impl traits::MlsGroupJoinConfig<V> for Blob {}
impl traits::LeafNode<V> for Blob {}
impl traits::ProposalRef<V> for Blob {}

pub const N_GROUPS: u8 = 4; // group 3 is never created by SaveGroup
pub const N_MSG: u8 = 6;
pub const N_WRAP: u8 = 5;
pub const N_KINDS: u8 = 10;

pub fn gid(g: u8) -> GroupId {
    GroupId::from_slice(&[0xA0 + g, 1, 2, 3, 4, 5, 6, 7])
}
pub fn mls_gid(g: u8) -> openmls::group::GroupId {
    openmls::group::GroupId::from_slice(gid(g).as_slice())
}
pub fn nid(n: u8) -> [u8; 32] {
    [n + 1; 32]
}
pub fn mid(m: u8) -> EventId {
    EventId::from_byte_array([0x10 + m; 32])
}
pub fn wid(w: u8) -> EventId {
    EventId::from_byte_array([0x40 + w; 32])
}
pub fn pk(k: u8) -> PublicKey {
    Keys::new(SecretKey::from_slice(&[k + 1; 32]).unwrap()).public_key()
}
pub fn ts(i: u8) -> Timestamp {
    Timestamp::from_secs([1000, 1000, 1001][i as usize % 3])
}
pub fn relay(n: u8) -> RelayUrl {
    RelayUrl::parse(&format!("wss://r{}.example.org", n)).unwrap()
}

#[derive(Clone, Debug, PartialEq, Eq, Hash, Serialize, Deserialize)]
pub enum SOp {
    /// the SQLite handle is dropped and the file opened again (the memory backend and the model
    /// are not touched): everything written so far must be there
    Reopen,
    SaveGroup { g: u8, n: u8, name: u8, epoch: u8, state: u8, admins: u8, last: u8, img: u8, su: u8 },
    ReplaceRelays { g: u8, mask: u8 },
    SaveSecret { g: u8, epoch: u8, val: u8 },
    SaveMessage { g: u8, m: u8, created: u8, processed: u8, epoch: u8, state: u8, content: u8, tag: u8, author: u8 },
    SaveProcessed { w: u8, m: u8, g: u8, epoch: u8, state: u8 },
    InvalidateMsgs { g: u8, epoch: u8 },
    InvalidateProcessed { g: u8, epoch: u8 },
    MarkRetryable { w: u8 },
    SaveWelcome { w: u8, g: u8, state: u8 },
    SaveProcessedWelcome { w: u8, welcome: u8, state: u8 },
    Snapshot { g: u8, name: u8 },
    Rollback { g: u8, name: u8 },
    Release { g: u8, name: u8 },
    Prune { all: bool },
    WriteGroupData { g: u8, kind: u8, val: u8 },
    DeleteGroupData { g: u8, kind: u8 },
    QueueProposal { g: u8, r: u8, val: u8 },
    RemoveProposal { g: u8, r: u8 },
    ClearProposals { g: u8 },
    AppendOwnLeaf { g: u8, val: u8 },
    DeleteOwnLeaves { g: u8 },
    WriteEpochKeys { g: u8, epoch: u8, leaf: u8, val: u8 },
    DeleteEpochKeys { g: u8, epoch: u8, leaf: u8 },
    WriteKeyPackage { r: u8, val: u8 },
    DeleteKeyPackage { r: u8 },
    WritePsk { r: u8, val: u8 },
    WriteSigKey { r: u8, val: u8 },
    DeleteSigKey { r: u8 },
    WriteEncKey { r: u8, val: u8 },
    /// a paged listing (judged against the model and for page partitioning)
    Page { g: u8, limit: u8, offset: u8, processed_first: bool },
    TagSearch { g: u8, needle: u8 },
}

pub fn limit_of(sel: u8) -> usize {
    match sel % 8 {
        0 => 0,
        1 => 1,
        2 => 2,
        3 => 3,
        4 => 1000,
        5 => MAX_MESSAGE_LIMIT,
        6 => MAX_MESSAGE_LIMIT + 1,
        _ => usize::MAX,
    }
}
pub fn offset_of(sel: u8) -> usize {
    match sel % 8 {
        0 => 0,
        1 => 1,
        2 => 2,
        3 => 5,
        4 => 6,
        5 => 7,
        6 => 1 << 40,
        _ => usize::MAX,
    }
}
pub fn needle_of(sel: u8) -> &'static str {
    ["x abc", "x ABC", "t1", "%", "_ abc", "nomatch"][sel as usize % 6]
}

fn group_of(g: u8, n: u8, name: u8, epoch: u8, state: u8, admins: u8, last: u8, img: u8, su: u8) -> Group {
    let mut adm = BTreeSet::new();
    for k in 0..3 {
        if admins & (1 << k) != 0 {
            adm.insert(pk(k));
        }
    }
    Group {
        mls_group_id: gid(g),
        nostr_group_id: nid(n),
        name: match name % 4 {
            0 => String::new(),
            1 => "name one".into(),
            2 => "ünïcode \u{1F600} name".into(),
            _ => "n".repeat(255),
        },
        description: format!("description {}", name % 3),
        image_hash: if img % 2 == 1 { Some([img; 32]) } else { None },
        image_key: if img % 2 == 1 { Some(Secret::new([img.wrapping_add(1); 32])) } else { None },
        image_nonce: if img % 3 == 1 { Some(Secret::new([img.wrapping_add(2); 12])) } else { None },
        admin_pubkeys: adm,
        last_message_id: if last % 3 == 0 { None } else { Some(mid(last % N_MSG)) },
        last_message_at: if last % 3 == 0 { None } else { Some(ts(last)) },
        last_message_processed_at: if last % 3 == 2 { Some(ts(last + 1)) } else { None },
        epoch: epoch as u64,
        state: [GroupState::Active, GroupState::Inactive, GroupState::Pending][state as usize % 3],
        self_update_state: if su % 2 == 0 {
            SelfUpdateState::Required
        } else {
            SelfUpdateState::CompletedAt(Timestamp::from_secs(5000 + su as u64))
        },
    }
}

fn message_of(g: u8, m: u8, created: u8, processed: u8, epoch: u8, state: u8, content: u8, tag: u8, author: u8) -> Message {
    let tags: Vec<Tag> = match tag % 4 {
        0 => vec![],
        1 => vec![Tag::hashtag("t1")],
        2 => vec![Tag::custom(nostr::TagKind::Custom("imeta".into()), ["x abc".to_string(), "m image/png".to_string()])],
        _ => vec![Tag::hashtag("t1"), Tag::custom(nostr::TagKind::Custom("imeta".into()), ["x ABC".to_string()])],
    };
    let content = match content % 3 {
        0 => String::new(),
        1 => format!("content {content} of {m}"),
        _ => "long ".repeat(300),
    };
    let author_sel = author;
    let author = pk(author % 3);
    // every column differs between two saves of the same id with other parameters (a column
    // forgotten in an upsert's update list must show)
    let kind = Kind::Custom(9 + (content.len() % 2) as u16);
    let mut ev = UnsignedEvent::new(author, ts(created), kind, tags.clone(), content.clone());
    ev.id = Some(mid(m));
    Message {
        id: mid(m),
        pubkey: author,
        kind,
        mls_group_id: gid(g),
        created_at: ts(created),
        processed_at: ts(processed),
        content,
        tags: Tags::from_list(tags),
        event: ev,
        wrapper_event_id: wid((m + author_sel) % N_WRAP),
        epoch: if epoch % 4 == 3 { None } else { Some((epoch % 4) as u64) },
        state: [MessageState::Created, MessageState::Processed, MessageState::Deleted, MessageState::EpochInvalidated][state as usize % 4],
    }
}

fn processed_of(w: u8, m: u8, g: u8, epoch: u8, state: u8) -> ProcessedMessage {
    ProcessedMessage {
        wrapper_event_id: wid(w),
        message_event_id: if m % 2 == 0 { None } else { Some(mid(m % N_MSG)) },
        processed_at: ts(m),
        epoch: if epoch % 4 == 3 { None } else { Some((epoch % 4) as u64) },
        mls_group_id: if g % 5 == 4 { None } else { Some(gid(g % N_GROUPS)) },
        state: [
            ProcessedMessageState::Created,
            ProcessedMessageState::Processed,
            ProcessedMessageState::ProcessedCommit,
            ProcessedMessageState::Failed,
            ProcessedMessageState::EpochInvalidated,
            ProcessedMessageState::Retryable,
        ][state as usize % 6],
        failure_reason: if state % 6 == 3 { Some("processing_failed".into()) } else { None },
    }
}

fn welcome_of(w: u8, g: u8, state: u8) -> Welcome {
    let welcomer = pk(w % 3);
    let mut ev = UnsignedEvent::new(welcomer, ts(w), Kind::MlsWelcome, vec![], format!("welcome {w}"));
    ev.id = Some(mid(w));
    Welcome {
        id: mid(w),
        event: ev,
        mls_group_id: gid(g % N_GROUPS),
        nostr_group_id: nid(g),
        group_name: format!("welcome group {g}"),
        group_description: "d".into(),
        group_image_hash: if w % 2 == 0 { None } else { Some([w; 32]) },
        group_image_key: if w % 2 == 0 { None } else { Some(Secret::new([w + 1; 32])) },
        group_image_nonce: if w % 2 == 0 { None } else { Some(Secret::new([w + 2; 12])) },
        group_admin_pubkeys: [pk(0)].into_iter().collect(),
        group_relays: [relay(w % 3)].into_iter().collect(),
        welcomer,
        member_count: 2 + w as u32,
        state: [WelcomeState::Pending, WelcomeState::Accepted, WelcomeState::Declined, WelcomeState::Ignored][state as usize % 4],
        wrapper_event_id: wid(w % N_WRAP),
    }
}

fn processed_welcome_of(w: u8, welcome: u8, state: u8) -> ProcessedWelcome {
    ProcessedWelcome {
        wrapper_event_id: wid(w),
        welcome_event_id: if welcome % 3 == 0 { None } else { Some(mid(welcome % N_MSG)) },
        processed_at: ts(w),
        state: [ProcessedWelcomeState::Processed, ProcessedWelcomeState::Failed][state as usize % 2],
        failure_reason: if state % 2 == 1 { Some("reason".into()) } else { None },
    }
}

fn snap_name(n: u8) -> String {
    format!("snap-{}", n % 4)
}

fn jv<T: Serialize>(t: &T) -> Value {
    serde_json::to_value(t).unwrap_or(Value::Null)
}
fn res<T: Serialize, E>(r: Result<T, E>) -> Value {
    match r {
        Ok(t) => json!({ "ok": jv(&t) }),
        Err(_) => json!("ERR"),
    }
}
fn res_set<T: Serialize, E>(r: Result<Vec<T>, E>) -> Value {
    match r {
        Ok(v) => {
            let mut s: Vec<String> = v.iter().map(|x| jv(x).to_string()).collect();
            s.sort();
            json!({ "ok-set": s })
        }
        Err(_) => json!("ERR"),
    }
}

// ---------------------------------------------------------------------------------------------
// real backends
// ---------------------------------------------------------------------------------------------

macro_rules! gd {
    ($s:expr, $g:expr, $kind:expr, write $val:expr) => {{
        let id = mls_gid($g);
        let v = Blob(vec![$val, $kind]);
        match $kind % N_KINDS {
            0 => $s.write_mls_join_config(&id, &v).map_err(|_| ()),
            1 => $s.write_tree(&id, &v).map_err(|_| ()),
            2 => $s.write_interim_transcript_hash(&id, &v).map_err(|_| ()),
            3 => $s.write_context(&id, &v).map_err(|_| ()),
            4 => $s.write_confirmation_tag(&id, &v).map_err(|_| ()),
            5 => $s.write_group_state(&id, &v).map_err(|_| ()),
            6 => $s.write_message_secrets(&id, &v).map_err(|_| ()),
            7 => $s.write_resumption_psk_store(&id, &v).map_err(|_| ()),
            8 => $s.write_own_leaf_index(&id, &v).map_err(|_| ()),
            _ => $s.write_group_epoch_secrets(&id, &v).map_err(|_| ()),
        }
    }};
    ($s:expr, $g:expr, $kind:expr, read) => {{
        let id = mls_gid($g);
        let r: Result<Option<Blob>, ()> = match $kind % N_KINDS {
            0 => $s.mls_group_join_config(&id).map_err(|_| ()),
            1 => $s.tree(&id).map_err(|_| ()),
            2 => $s.interim_transcript_hash(&id).map_err(|_| ()),
            3 => $s.group_context(&id).map_err(|_| ()),
            4 => $s.confirmation_tag(&id).map_err(|_| ()),
            5 => $s.group_state(&id).map_err(|_| ()),
            6 => $s.message_secrets(&id).map_err(|_| ()),
            7 => $s.resumption_psk_store(&id).map_err(|_| ()),
            8 => $s.own_leaf_index(&id).map_err(|_| ()),
            _ => $s.group_epoch_secrets(&id).map_err(|_| ()),
        };
        r
    }};
    ($s:expr, $g:expr, $kind:expr, delete) => {{
        let id = mls_gid($g);
        match $kind % N_KINDS {
            0 => $s.delete_group_config(&id).map_err(|_| ()),
            1 => $s.delete_tree(&id).map_err(|_| ()),
            2 => $s.delete_interim_transcript_hash(&id).map_err(|_| ()),
            3 => $s.delete_context(&id).map_err(|_| ()),
            4 => $s.delete_confirmation_tag(&id).map_err(|_| ()),
            5 => $s.delete_group_state(&id).map_err(|_| ()),
            6 => $s.delete_message_secrets(&id).map_err(|_| ()),
            7 => $s.delete_all_resumption_psk_secrets(&id).map_err(|_| ()),
            8 => $s.delete_own_leaf_index(&id).map_err(|_| ()),
            _ => $s.delete_group_epoch_secrets(&id).map_err(|_| ()),
        }
    }};
}

pub fn apply_real<S: MdkStorageProvider>(s: &S, op: &SOp, now_far: u64) -> Value {
    match op {
        SOp::SaveGroup { g, n, name, epoch, state, admins, last, img, su } => {
            res(s.save_group(group_of(*g % 3, *n % 4, *name, *epoch, *state, *admins, *last, *img, *su)))
        }
        SOp::ReplaceRelays { g, mask } => {
            let set: BTreeSet<RelayUrl> = (0..4).filter(|k| mask & (1 << k) != 0).map(relay).collect();
            res(s.replace_group_relays(&gid(*g % N_GROUPS), set))
        }
        SOp::SaveSecret { g, epoch, val } => res(s.save_group_exporter_secret(GroupExporterSecret {
            mls_group_id: gid(*g % N_GROUPS),
            epoch: (*epoch % 4) as u64,
            secret: Secret::new([*val; 32]),
        })),
        SOp::SaveMessage { g, m, created, processed, epoch, state, content, tag, author } => res(
            s.save_message(message_of(*g % N_GROUPS, *m % N_MSG, *created, *processed, *epoch, *state, *content, *tag, *author)),
        ),
        SOp::SaveProcessed { w, m, g, epoch, state } => {
            res(s.save_processed_message(processed_of(*w % N_WRAP, *m, *g, *epoch, *state)))
        }
        SOp::InvalidateMsgs { g, epoch } => {
            res_set(s.invalidate_messages_after_epoch(&gid(*g % N_GROUPS), (*epoch % 4) as u64))
        }
        SOp::InvalidateProcessed { g, epoch } => res_set(
            s.invalidate_processed_messages_after_epoch(&gid(*g % N_GROUPS), (*epoch % 4) as u64),
        ),
        SOp::MarkRetryable { w } => res(s.mark_processed_message_retryable(&wid(*w % N_WRAP))),
        SOp::SaveWelcome { w, g, state } => res(s.save_welcome(welcome_of(*w % N_WRAP, *g, *state))),
        SOp::SaveProcessedWelcome { w, welcome, state } => {
            res(s.save_processed_welcome(processed_welcome_of(*w % N_WRAP, *welcome, *state)))
        }
        SOp::Snapshot { g, name } => res(s.create_group_snapshot(&gid(*g % N_GROUPS), &snap_name(*name))),
        SOp::Rollback { g, name } => res(s.rollback_group_to_snapshot(&gid(*g % N_GROUPS), &snap_name(*name))),
        SOp::Release { g, name } => res(s.release_group_snapshot(&gid(*g % N_GROUPS), &snap_name(*name))),
        SOp::Prune { all } => res(s.prune_expired_snapshots(if *all { now_far } else { 0 })),
        SOp::Reopen => res::<(), ()>(Ok(())),
        SOp::WriteGroupData { g, kind, val } => res(gd!(s, *g % N_GROUPS, *kind, write * val)),
        SOp::DeleteGroupData { g, kind } => res(gd!(s, *g % N_GROUPS, *kind, delete)),
        SOp::QueueProposal { g, r, val } => res(
            s.queue_proposal(&mls_gid(*g % N_GROUPS), &Blob(vec![0xB0 + r % 4]), &Blob(vec![*val, 1, 2]))
                .map_err(|_| ()),
        ),
        SOp::RemoveProposal { g, r } => {
            res(s.remove_proposal(&mls_gid(*g % N_GROUPS), &Blob(vec![0xB0 + r % 4])).map_err(|_| ()))
        }
        SOp::ClearProposals { g } => {
            res(s.clear_proposal_queue::<_, Blob>(&mls_gid(*g % N_GROUPS)).map_err(|_| ()))
        }
        SOp::AppendOwnLeaf { g, val } => {
            res(s.append_own_leaf_node(&mls_gid(*g % N_GROUPS), &Blob(vec![*val, 9])).map_err(|_| ()))
        }
        SOp::DeleteOwnLeaves { g } => res(s.delete_own_leaf_nodes(&mls_gid(*g % N_GROUPS)).map_err(|_| ())),
        SOp::WriteEpochKeys { g, epoch, leaf, val } => res(
            s.write_encryption_epoch_key_pairs(
                &mls_gid(*g % N_GROUPS),
                &Blob(vec![0xE0 + epoch % 3]),
                (*leaf % 3) as u32,
                &[Blob(vec![*val]), Blob(vec![*val, *val])],
            )
            .map_err(|_| ()),
        ),
        SOp::DeleteEpochKeys { g, epoch, leaf } => res(
            s.delete_encryption_epoch_key_pairs(&mls_gid(*g % N_GROUPS), &Blob(vec![0xE0 + epoch % 3]), (*leaf % 3) as u32)
                .map_err(|_| ()),
        ),
        SOp::WriteKeyPackage { r, val } => {
            res(s.write_key_package(&Blob(vec![0xC0 + r % 3]), &Blob(vec![*val, 7])).map_err(|_| ()))
        }
        SOp::DeleteKeyPackage { r } => res(s.delete_key_package(&Blob(vec![0xC0 + r % 3])).map_err(|_| ())),
        SOp::WritePsk { r, val } => res(s.write_psk(&Blob(vec![0xD0 + r % 3]), &Blob(vec![*val, 8])).map_err(|_| ())),
        SOp::WriteSigKey { r, val } => {
            res(s.write_signature_key_pair(&Blob(vec![0xF0 + r % 3]), &Blob(vec![*val, 6])).map_err(|_| ()))
        }
        SOp::DeleteSigKey { r } => res(s.delete_signature_key_pair(&Blob(vec![0xF0 + r % 3])).map_err(|_| ())),
        SOp::WriteEncKey { r, val } => {
            res(s.write_encryption_key_pair(&Blob(vec![0x90 + r % 3]), &Blob(vec![*val, 5])).map_err(|_| ()))
        }
        SOp::Page { g, limit, offset, processed_first } => {
            let order = if *processed_first { MessageSortOrder::ProcessedAtFirst } else { MessageSortOrder::CreatedAtFirst };
            res(s
                .messages(
                    &gid(*g % N_GROUPS),
                    Some(Pagination::with_sort_order(Some(limit_of(*limit)), Some(offset_of(*offset)), order)),
                )
                .map(|v| v.iter().map(|m| m.id.to_hex()).collect::<Vec<_>>()))
        }
        SOp::TagSearch { g, needle } => {
            // any matching message's epoch is a correct answer: normalised to Some/None here,
            // the value is judged against the model separately
            res(s
                .find_message_epoch_by_tag_content(&gid(*g % N_GROUPS), needle_of(*needle))
                .map(|o| o.is_some()))
        }
    }
}

pub fn tag_search_value<S: MdkStorageProvider>(s: &S, g: u8, needle: u8) -> Result<Option<u64>, ()> {
    s.find_message_epoch_by_tag_content(&gid(g % N_GROUPS), needle_of(needle)).map_err(|_| ())
}

/// Every read the contract offers, over the whole key pool.
pub fn dump_real<S: MdkStorageProvider>(s: &S) -> BTreeMap<String, Value> {
    let mut d = BTreeMap::new();
    d.insert("all_groups".into(), res_set(s.all_groups()));
    for n in 0..4u8 {
        d.insert(format!("group_by_nostr[{n}]"), res(s.find_group_by_nostr_group_id(&nid(n))));
    }
    for g in 0..N_GROUPS {
        let id = gid(g);
        d.insert(format!("group[{g}]"), res(s.find_group_by_mls_group_id(&id)));
        d.insert(format!("relays[{g}]"), res(s.group_relays(&id)));
        d.insert(format!("admins[{g}]"), res(s.admins(&id)));
        for e in 0..4u64 {
            d.insert(format!("secret[{g},{e}]"), res(s.get_group_exporter_secret(&id, e)));
        }
        for (nm, order) in [("created", MessageSortOrder::CreatedAtFirst), ("processed", MessageSortOrder::ProcessedAtFirst)] {
            d.insert(
                format!("messages[{g},{nm}]"),
                res(s.messages(&id, Some(Pagination::with_sort_order(Some(MAX_MESSAGE_LIMIT), Some(0), order)))),
            );
            d.insert(format!("last_message[{g},{nm}]"), res(s.last_message(&id, order)));
        }
        d.insert(format!("messages_default[{g}]"), res(s.messages(&id, None)));
        for m in 0..N_MSG {
            d.insert(format!("message[{g},{m}]"), res(s.find_message_by_event_id(&id, &mid(m))));
        }
        d.insert(format!("invalidated_messages[{g}]"), res_set(s.find_invalidated_messages(&id)));
        d.insert(format!("invalidated_processed[{g}]"), res_set(s.find_invalidated_processed_messages(&id)));
        d.insert(format!("failed_for_retry[{g}]"), res_set(s.find_failed_messages_for_retry(&id)));
        d.insert(
            format!("snapshots[{g}]"),
            res_set(s.list_group_snapshots(&id).map(|v| v.into_iter().map(|(n, _)| n).collect::<Vec<_>>())),
        );
        let mg = mls_gid(g);
        for k in 0..N_KINDS {
            d.insert(format!("mls_group_data[{g},{k}]"), res(gd!(s, g, k, read)));
        }
        d.insert(
            format!("mls_proposal_refs[{g}]"),
            res_set(s.queued_proposal_refs::<_, Blob>(&mg).map_err(|_| ())),
        );
        d.insert(
            format!("mls_proposals[{g}]"),
            res_set(s.queued_proposals::<_, Blob, Blob>(&mg).map_err(|_| ())),
        );
        d.insert(format!("mls_own_leaves[{g}]"), res(s.own_leaf_nodes::<_, Blob>(&mg).map_err(|_| ())));
        for e in 0..3u8 {
            for l in 0..3u32 {
                d.insert(
                    format!("mls_epoch_keys[{g},{e},{l}]"),
                    res(s.encryption_epoch_key_pairs::<_, _, Blob>(&mg, &Blob(vec![0xE0 + e]), l).map_err(|_| ())),
                );
            }
        }
    }
    for w in 0..N_WRAP {
        d.insert(format!("processed_message[{w}]"), res(s.find_processed_message_by_event_id(&wid(w))));
        d.insert(format!("processed_welcome[{w}]"), res(s.find_processed_welcome_by_event_id(&wid(w))));
    }
    for m in 0..N_MSG {
        d.insert(format!("welcome[{m}]"), res(s.find_welcome_by_event_id(&mid(m))));
    }
    d.insert("pending_welcomes".into(), res(s.pending_welcomes(None)));
    d.insert(
        "pending_welcomes[1,1]".into(),
        res(s.pending_welcomes(Some(mdk_storage_traits::welcomes::Pagination::new(Some(1), Some(1))))),
    );
    d.insert(
        "pending_welcomes[0,0]".into(),
        res(s.pending_welcomes(Some(mdk_storage_traits::welcomes::Pagination::new(Some(0), Some(0))))),
    );
    for r in 0..3u8 {
        d.insert(format!("mls_key_package[{r}]"), res(s.key_package::<_, Blob>(&Blob(vec![0xC0 + r])).map_err(|_| ())));
        d.insert(format!("mls_psk[{r}]"), res(s.psk::<Blob, _>(&Blob(vec![0xD0 + r])).map_err(|_| ())));
        d.insert(format!("mls_sig_key[{r}]"), res(s.signature_key_pair::<_, Blob>(&Blob(vec![0xF0 + r])).map_err(|_| ())));
        d.insert(format!("mls_enc_key[{r}]"), res(s.encryption_key_pair::<Blob, _>(&Blob(vec![0x90 + r])).map_err(|_| ())));
    }
    d
}

// ---------------------------------------------------------------------------------------------
// the reference model
// ---------------------------------------------------------------------------------------------

#[derive(Clone, Default, Debug)]
pub struct GroupSlice {
    pub group: Option<Group>,
    pub relays: BTreeSet<RelayUrl>,
    pub secrets: BTreeMap<u64, [u8; 32]>,
    pub group_data: BTreeMap<u8, Blob>,
    pub proposals: BTreeMap<Blob, Blob>,
    pub own_leaves: Vec<Blob>,
    pub epoch_keys: BTreeMap<(u8, u32), Vec<Blob>>,
}

#[derive(Clone, Default, Debug)]
pub struct Model {
    pub slices: BTreeMap<u8, GroupSlice>,
    pub messages: BTreeMap<(u8, u8), Message>,
    pub processed: BTreeMap<u8, ProcessedMessage>,
    pub welcomes: BTreeMap<u8, Welcome>,
    pub processed_welcomes: BTreeMap<u8, ProcessedWelcome>,
    pub snapshots: BTreeMap<(u8, String), GroupSlice>,
    pub key_packages: BTreeMap<u8, Blob>,
    pub psks: BTreeMap<u8, Blob>,
    pub sig_keys: BTreeMap<u8, Blob>,
    pub enc_keys: BTreeMap<u8, Blob>,
}

fn ok<T: Serialize>(t: T) -> Value {
    json!({ "ok": jv(&t) })
}
fn ok_set<T: Serialize>(v: Vec<T>) -> Value {
    let mut s: Vec<String> = v.iter().map(|x| jv(x).to_string()).collect();
    s.sort();
    json!({ "ok-set": s })
}
fn err() -> Value {
    json!("ERR")
}

impl Model {
    fn exists(&self, g: u8) -> bool {
        self.slices.get(&g).map(|s| s.group.is_some()).unwrap_or(false)
    }
    fn slice(&mut self, g: u8) -> &mut GroupSlice {
        self.slices.entry(g).or_default()
    }
    fn sorted_msgs(&self, g: u8, order: MessageSortOrder) -> Vec<Message> {
        let mut v: Vec<Message> = self.messages.iter().filter(|((gg, _), _)| *gg == g).map(|(_, m)| m.clone()).collect();
        match order {
            MessageSortOrder::CreatedAtFirst => v.sort_by(|a, b| {
                (b.created_at, b.processed_at, b.id).cmp(&(a.created_at, a.processed_at, a.id))
            }),
            MessageSortOrder::ProcessedAtFirst => v.sort_by(|a, b| {
                (b.processed_at, b.created_at, b.id).cmp(&(a.processed_at, a.created_at, a.id))
            }),
        }
        v
    }

    pub fn apply(&mut self, op: &SOp) -> Value {
        match op {
            SOp::SaveGroup { g, n, name, epoch, state, admins, last, img, su } => {
                let g = *g % 3;
                let grp = group_of(g, *n % 4, *name, *epoch, *state, *admins, *last, *img, *su);
                // a Nostr group id belongs to at most one group
                for (og, sl) in &self.slices {
                    if *og != g {
                        if let Some(o) = &sl.group {
                            if o.nostr_group_id == grp.nostr_group_id {
                                return err();
                            }
                        }
                    }
                }
                self.slice(g).group = Some(grp);
                ok(())
            }
            SOp::ReplaceRelays { g, mask } => {
                let g = *g % N_GROUPS;
                if !self.exists(g) {
                    return err();
                }
                self.slice(g).relays = (0..4).filter(|k| mask & (1 << k) != 0).map(relay).collect();
                ok(())
            }
            SOp::SaveSecret { g, epoch, val } => {
                let g = *g % N_GROUPS;
                if !self.exists(g) {
                    return err();
                }
                self.slice(g).secrets.insert((*epoch % 4) as u64, [*val; 32]);
                ok(())
            }
            SOp::SaveMessage { g, m, created, processed, epoch, state, content, tag, author } => {
                let g = *g % N_GROUPS;
                if !self.exists(g) {
                    return err();
                }
                let msg = message_of(g, *m % N_MSG, *created, *processed, *epoch, *state, *content, *tag, *author);
                self.messages.insert((g, *m % N_MSG), msg);
                ok(())
            }
            SOp::SaveProcessed { w, m, g, epoch, state } => {
                self.processed.insert(*w % N_WRAP, processed_of(*w % N_WRAP, *m, *g, *epoch, *state));
                ok(())
            }
            SOp::InvalidateMsgs { g, epoch } => {
                let g = *g % N_GROUPS;
                let e = (*epoch % 4) as u64;
                let mut ids = vec![];
                for ((gg, _), m) in self.messages.iter_mut() {
                    if *gg == g && m.epoch.map(|x| x > e).unwrap_or(false) {
                        m.state = MessageState::EpochInvalidated;
                        ids.push(m.id);
                    }
                }
                ok_set(ids)
            }
            SOp::InvalidateProcessed { g, epoch } => {
                let id = gid(*g % N_GROUPS);
                let e = (*epoch % 4) as u64;
                let mut ids = vec![];
                for p in self.processed.values_mut() {
                    if p.mls_group_id.as_ref() == Some(&id) && p.epoch.map(|x| x > e).unwrap_or(false) {
                        p.state = ProcessedMessageState::EpochInvalidated;
                        ids.push(p.wrapper_event_id);
                    }
                }
                ok_set(ids)
            }
            SOp::MarkRetryable { w } => match self.processed.get_mut(&(*w % N_WRAP)) {
                Some(p) if p.state == ProcessedMessageState::Failed => {
                    p.state = ProcessedMessageState::Retryable;
                    ok(())
                }
                _ => err(),
            },
            SOp::SaveWelcome { w, g, state } => {
                let wl = welcome_of(*w % N_WRAP, *g, *state);
                self.welcomes.insert(*w % N_WRAP, wl);
                ok(())
            }
            SOp::SaveProcessedWelcome { w, welcome, state } => {
                self.processed_welcomes.insert(*w % N_WRAP, processed_welcome_of(*w % N_WRAP, *welcome, *state));
                ok(())
            }
            SOp::Snapshot { g, name } => {
                let g = *g % N_GROUPS;
                let sl = self.slices.get(&g).cloned().unwrap_or_default();
                self.snapshots.insert((g, snap_name(*name)), sl);
                ok(())
            }
            SOp::Rollback { g, name } => {
                let g = *g % N_GROUPS;
                // a Nostr group id belongs to at most one group: a snapshot whose record carries an
                // id that another group has taken since cannot be restored; the rollback is
                // refused and nothing changes (the snapshot stays)
                if let Some(sg) = self.snapshots.get(&(g, snap_name(*name))).and_then(|sl| sl.group.as_ref()) {
                    for (og, sl) in &self.slices {
                        if *og != g {
                            if let Some(o) = &sl.group {
                                if o.nostr_group_id == sg.nostr_group_id {
                                    return err();
                                }
                            }
                        }
                    }
                }
                match self.snapshots.remove(&(g, snap_name(*name))) {
                    Some(sl) => {
                        self.slices.insert(g, sl);
                        ok(())
                    }
                    None => err(),
                }
            }
            SOp::Release { g, name } => {
                self.snapshots.remove(&(*g % N_GROUPS, snap_name(*name)));
                ok(())
            }
            SOp::Reopen => ok(()),
            SOp::Prune { all } => {
                if *all {
                    let n = self.snapshots.len();
                    self.snapshots.clear();
                    ok(n)
                } else {
                    ok(0usize)
                }
            }
            SOp::WriteGroupData { g, kind, val } => {
                self.slice(*g % N_GROUPS).group_data.insert(*kind % N_KINDS, Blob(vec![*val, *kind]));
                ok(())
            }
            SOp::DeleteGroupData { g, kind } => {
                self.slice(*g % N_GROUPS).group_data.remove(&(*kind % N_KINDS));
                ok(())
            }
            SOp::QueueProposal { g, r, val } => {
                self.slice(*g % N_GROUPS).proposals.insert(Blob(vec![0xB0 + r % 4]), Blob(vec![*val, 1, 2]));
                ok(())
            }
            SOp::RemoveProposal { g, r } => {
                self.slice(*g % N_GROUPS).proposals.remove(&Blob(vec![0xB0 + r % 4]));
                ok(())
            }
            SOp::ClearProposals { g } => {
                self.slice(*g % N_GROUPS).proposals.clear();
                ok(())
            }
            SOp::AppendOwnLeaf { g, val } => {
                self.slice(*g % N_GROUPS).own_leaves.push(Blob(vec![*val, 9]));
                ok(())
            }
            SOp::DeleteOwnLeaves { g } => {
                self.slice(*g % N_GROUPS).own_leaves.clear();
                ok(())
            }
            SOp::WriteEpochKeys { g, epoch, leaf, val } => {
                self.slice(*g % N_GROUPS)
                    .epoch_keys
                    .insert((*epoch % 3, (*leaf % 3) as u32), vec![Blob(vec![*val]), Blob(vec![*val, *val])]);
                ok(())
            }
            SOp::DeleteEpochKeys { g, epoch, leaf } => {
                self.slice(*g % N_GROUPS).epoch_keys.remove(&(*epoch % 3, (*leaf % 3) as u32));
                ok(())
            }
            SOp::WriteKeyPackage { r, val } => {
                self.key_packages.insert(*r % 3, Blob(vec![*val, 7]));
                ok(())
            }
            SOp::DeleteKeyPackage { r } => {
                self.key_packages.remove(&(*r % 3));
                ok(())
            }
            SOp::WritePsk { r, val } => {
                self.psks.insert(*r % 3, Blob(vec![*val, 8]));
                ok(())
            }
            SOp::WriteSigKey { r, val } => {
                self.sig_keys.insert(*r % 3, Blob(vec![*val, 6]));
                ok(())
            }
            SOp::DeleteSigKey { r } => {
                self.sig_keys.remove(&(*r % 3));
                ok(())
            }
            SOp::WriteEncKey { r, val } => {
                self.enc_keys.insert(*r % 3, Blob(vec![*val, 5]));
                ok(())
            }
            SOp::Page { g, limit, offset, processed_first } => {
                let g = *g % N_GROUPS;
                let limit = limit_of(*limit);
                let offset = offset_of(*offset);
                if !(1..=MAX_MESSAGE_LIMIT).contains(&limit) {
                    return err();
                }
                if !self.exists(g) {
                    return err();
                }
                let order = if *processed_first { MessageSortOrder::ProcessedAtFirst } else { MessageSortOrder::CreatedAtFirst };
                let v = self.sorted_msgs(g, order);
                let page: Vec<String> = v.iter().skip(offset).take(limit).map(|m| m.id.to_hex()).collect();
                ok(page)
            }
            SOp::TagSearch { g, needle } => ok(!self.tag_matches(*g % N_GROUPS, *needle).is_empty()),
        }
    }

    /// epochs of the messages whose serialised tags contain the needle
    pub fn tag_matches(&self, g: u8, needle: u8) -> BTreeSet<u64> {
        let n = needle_of(needle);
        self.messages
            .iter()
            .filter(|((gg, _), _)| *gg == g)
            .filter_map(|(_, m)| {
                let tags_json = serde_json::to_string(&m.tags).unwrap_or_default();
                if tags_json.contains(n) { m.epoch } else { None }
            })
            .collect()
    }

    pub fn dump(&self) -> BTreeMap<String, Value> {
        let mut d = BTreeMap::new();
        let all: Vec<Group> = self.slices.values().filter_map(|s| s.group.clone()).collect();
        d.insert("all_groups".into(), ok_set(all.clone()));
        for n in 0..4u8 {
            let f = all.iter().find(|g| g.nostr_group_id == nid(n)).cloned();
            d.insert(format!("group_by_nostr[{n}]"), ok(f));
        }
        let empty = GroupSlice::default();
        for g in 0..N_GROUPS {
            let sl = self.slices.get(&g).unwrap_or(&empty);
            let exists = sl.group.is_some();
            d.insert(format!("group[{g}]"), ok(sl.group.clone()));
            if exists {
                let rel: BTreeSet<_> = sl
                    .relays
                    .iter()
                    .map(|r| mdk_storage_traits::groups::types::GroupRelay { relay_url: r.clone(), mls_group_id: gid(g) })
                    .collect();
                d.insert(format!("relays[{g}]"), ok(rel));
                d.insert(format!("admins[{g}]"), ok(sl.group.as_ref().unwrap().admin_pubkeys.clone()));
            } else {
                d.insert(format!("relays[{g}]"), err());
                d.insert(format!("admins[{g}]"), err());
            }
            for e in 0..4u64 {
                let v = if exists {
                    ok(sl.secrets.get(&e).map(|s| GroupExporterSecret { mls_group_id: gid(g), epoch: e, secret: Secret::new(*s) }))
                } else {
                    err()
                };
                d.insert(format!("secret[{g},{e}]"), v);
            }
            for (nm, order) in [("created", MessageSortOrder::CreatedAtFirst), ("processed", MessageSortOrder::ProcessedAtFirst)] {
                let v = self.sorted_msgs(g, order);
                d.insert(format!("messages[{g},{nm}]"), if exists { ok(v.clone()) } else { err() });
                d.insert(format!("last_message[{g},{nm}]"), if exists { ok(v.first().cloned()) } else { err() });
            }
            d.insert(
                format!("messages_default[{g}]"),
                if exists { ok(self.sorted_msgs(g, MessageSortOrder::CreatedAtFirst)) } else { err() },
            );
            for m in 0..N_MSG {
                d.insert(format!("message[{g},{m}]"), ok(self.messages.get(&(g, m)).cloned()));
            }
            let inv: Vec<Message> = self
                .messages
                .iter()
                .filter(|((gg, _), m)| *gg == g && m.state == MessageState::EpochInvalidated)
                .map(|(_, m)| m.clone())
                .collect();
            d.insert(format!("invalidated_messages[{g}]"), ok_set(inv));
            let id = gid(g);
            let invp: Vec<ProcessedMessage> = self
                .processed
                .values()
                .filter(|p| p.mls_group_id.as_ref() == Some(&id) && p.state == ProcessedMessageState::EpochInvalidated)
                .cloned()
                .collect();
            d.insert(format!("invalidated_processed[{g}]"), ok_set(invp));
            let retry: Vec<EventId> = self
                .processed
                .values()
                .filter(|p| p.mls_group_id.as_ref() == Some(&id) && p.state == ProcessedMessageState::Failed && p.epoch.is_none())
                .map(|p| p.wrapper_event_id)
                .collect();
            d.insert(format!("failed_for_retry[{g}]"), ok_set(retry));
            let snaps: Vec<String> = self.snapshots.keys().filter(|(gg, _)| *gg == g).map(|(_, n)| n.clone()).collect();
            d.insert(format!("snapshots[{g}]"), ok_set(snaps));
            for k in 0..N_KINDS {
                d.insert(format!("mls_group_data[{g},{k}]"), ok(sl.group_data.get(&k).cloned()));
            }
            d.insert(format!("mls_proposal_refs[{g}]"), ok_set(sl.proposals.keys().cloned().collect()));
            d.insert(
                format!("mls_proposals[{g}]"),
                ok_set(sl.proposals.iter().map(|(k, v)| (k.clone(), v.clone())).collect()),
            );
            d.insert(format!("mls_own_leaves[{g}]"), ok(sl.own_leaves.clone()));
            for e in 0..3u8 {
                for l in 0..3u32 {
                    d.insert(format!("mls_epoch_keys[{g},{e},{l}]"), ok(sl.epoch_keys.get(&(e, l)).cloned().unwrap_or_default()));
                }
            }
        }
        for w in 0..N_WRAP {
            d.insert(format!("processed_message[{w}]"), ok(self.processed.get(&w).cloned()));
            d.insert(format!("processed_welcome[{w}]"), ok(self.processed_welcomes.get(&w).cloned()));
        }
        for m in 0..N_MSG {
            let f = self.welcomes.values().find(|w| w.id == mid(m)).cloned();
            d.insert(format!("welcome[{m}]"), ok(f));
        }
        let mut pend: Vec<Welcome> = self.welcomes.values().filter(|w| w.state == WelcomeState::Pending).cloned().collect();
        pend.sort_by(|a, b| b.id.cmp(&a.id));
        d.insert("pending_welcomes".into(), ok(pend.clone()));
        d.insert("pending_welcomes[1,1]".into(), ok(pend.iter().skip(1).take(1).cloned().collect::<Vec<_>>()));
        d.insert("pending_welcomes[0,0]".into(), err());
        for r in 0..3u8 {
            d.insert(format!("mls_key_package[{r}]"), ok(self.key_packages.get(&r).cloned()));
            d.insert(format!("mls_psk[{r}]"), ok(self.psks.get(&r).cloned()));
            d.insert(format!("mls_sig_key[{r}]"), ok(self.sig_keys.get(&r).cloned()));
            d.insert(format!("mls_enc_key[{r}]"), ok(self.enc_keys.get(&r).cloned()));
        }
        d
    }
}

pub fn first_difference(a: &BTreeMap<String, Value>, b: &BTreeMap<String, Value>) -> Option<(String, String, String)> {
    for (k, va) in a {
        match b.get(k) {
            Some(vb) if va == vb => {}
            Some(vb) => return Some((k.clone(), brief(va), brief(vb))),
            None => return Some((k.clone(), brief(va), "<absent>".into())),
        }
    }
    for k in b.keys() {
        if !a.contains_key(k) {
            return Some((k.clone(), "<absent>".into(), brief(&b[k])));
        }
    }
    None
}

pub fn brief(v: &Value) -> String {
    let s = v.to_string();
    if s.len() > 600 { format!("{}…({} bytes)", crate::fingerprint::sh(&s, 600), s.len()) } else { s }
}
