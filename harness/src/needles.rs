//! Secrets / identifiers to look for in files, logs and error texts, in several encodings.

use aho_corasick::AhoCorasick;
use base64::Engine;

pub struct Needles {
    patterns: Vec<Vec<u8>>,
    labels: Vec<String>,
    ac: Option<AhoCorasick>,
}

impl Default for Needles {
    fn default() -> Self {
        Needles {
            patterns: vec![],
            labels: vec![],
            ac: None,
        }
    }
}

impl Needles {
    fn push(&mut self, p: Vec<u8>, label: String) {
        if p.len() >= 8 && !self.patterns.contains(&p) {
            self.patterns.push(p);
            self.labels.push(label);
            self.ac = None;
        }
    }

    /// a binary value: raw, hex (both cases), base64 (standard and url-safe, unpadded core)
    pub fn add_bytes(&mut self, b: &[u8], label: &str) {
        if b.len() < 8 || b.iter().all(|x| *x == b[0]) {
            return; // too short or a constant fill: would match by accident
        }
        self.push(b.to_vec(), format!("{label} (raw)"));
        let h = hex::encode(b);
        self.push(h.clone().into_bytes(), format!("{label} (hex)"));
        self.push(h.to_uppercase().into_bytes(), format!("{label} (HEX)"));
        let b64 = base64::engine::general_purpose::STANDARD_NO_PAD.encode(b);
        // the last base64 character depends on padding: drop it
        let core = &b64[..b64.len() - 1];
        self.push(core.as_bytes().to_vec(), format!("{label} (base64)"));
        let b64u = base64::engine::general_purpose::URL_SAFE_NO_PAD.encode(b);
        self.push(b64u[..b64u.len() - 1].as_bytes().to_vec(), format!("{label} (base64url)"));
    }

    /// additionally the way Rust's Debug prints a byte slice: "[1, 2, 3"
    pub fn add_bytes_with_debug_list(&mut self, b: &[u8], label: &str) {
        self.add_bytes(b, label);
        if b.len() >= 8 && !b.iter().all(|x| *x == b[0]) {
            let list = b.iter().map(|x| x.to_string()).collect::<Vec<_>>().join(", ");
            self.push(list.into_bytes(), format!("{label} (byte list)"));
        }
    }

    pub fn add_text(&mut self, t: &str, label: &str) {
        self.push(t.as_bytes().to_vec(), format!("{label} (text)"));
    }

    pub fn len(&self) -> usize {
        self.patterns.len()
    }

    fn build(&mut self) {
        if self.ac.is_none() {
            self.ac = AhoCorasick::new(&self.patterns).ok();
        }
    }

    pub fn find(&mut self, hay: &[u8]) -> Option<(String, usize)> {
        if self.patterns.is_empty() {
            return None;
        }
        self.build();
        let ac = self.ac.as_ref()?;
        ac.find(hay).map(|m| (self.labels[m.pattern().as_usize()].clone(), m.start()))
    }
}
