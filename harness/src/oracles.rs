//! Oracles over a finished world (after quiescence and the reference chain walk).

use std::collections::{BTreeMap, BTreeSet};

use crate::on_mdk;
use crate::fingerprint::StateKey;
use crate::runner::{CaseReport, Mode};
use crate::world::{ChainState, Class, Failure, Outcome, Regime, World};

pub struct Excuse {
    pub key: &'static str,
    pub detail: String,
}

fn chain_index(chain: &[ChainState], k: &StateKey) -> Option<usize> {
    chain.iter().position(|c| &c.key == k)
}

/// Why may client `m` legitimately (i.e. by a *listed* finding or a stated limit of the
/// property) not have applied chain commit `c`?
fn excuse_for_commit(w: &World, m: usize, c: usize) -> Option<Excuse> {
    let cl = &w.clients[m];
    let ev = &w.relay[c];
    let rec = cl.delivered.get(&c)?;
    if !rec.first_reached_base {
        return Some(Excuse {
            key: "O2-premature-delivery-is-final",
            detail: format!(
                "commit #{c} was first handed to c{m} at step {} before it had reached the commit's base state; it was recorded as failed for good",
                rec.first_step
            ),
        });
    }
    for d in &ev.deps {
        let dep_first = cl.delivered.get(d).map(|r| r.first_step);
        if dep_first.map(|s| s > rec.first_step).unwrap_or(true) {
            return Some(Excuse {
                key: "O2-premature-delivery-is-final",
                detail: format!(
                    "commit #{c} was first handed to c{m} before proposal #{d}, which it references; it was recorded as failed for good"
                ),
            });
        }
        match cl.delivered.get(d) {
            Some(dr) if !dr.first_at_base => {
                return Some(Excuse {
                    key: "O2b-proposal-outside-its-epoch-is-final",
                    detail: format!(
                        "proposal #{d} referenced by commit #{c} was first handed to c{m} while it was not in the proposal's epoch state; it was recorded as failed for good"
                    ),
                });
            }
            _ => {}
        }
    }
    if !rec.first_at_base && !rec.first_routed {
        return Some(Excuse {
            key: "O23-event-tagged-with-superseded-nostr-group-id-is-dropped",
            detail: format!(
                "when commit #{c} was first handed to c{m} the client had applied a competing commit that rotated the Nostr group id, so the event (tagged with the id of its own epoch) was not routed to the group"
            ),
        });
    }
    if !rec.first_at_base {
        // the commit arrived after the client had moved on from the base state: a rollback
        // was needed
        let base_epoch = ev.base.as_ref().map(|b| b.epoch).unwrap_or(0);
        // O6: the client applied its own commit for the base epoch with merge_pending_commit
        for &own in &cl.immediate {
            // an immediately merged own commit on the same base leaves no snapshot for it
            if w.relay[own].base == ev.base {
                return Some(Excuse {
                    key: "O6-immediate-merge-has-no-snapshot",
                    detail: format!(
                        "c{m} applied its own commit #{own} with merge_pending_commit (no snapshot is taken), so the better commit #{c} could not be adopted"
                    ),
                });
            }
        }
        // O8: a restart between applying the losing commit and receiving the better one
        if let Some(b) = &ev.base {
            if let Some(&entered) = cl.entered_at.get(b) {
                if cl
                    .restarts
                    .iter()
                    .any(|&r| r > entered && r <= rec.first_step)
                {
                    return Some(Excuse {
                        key: "O8-restart-forgets-commit-timestamps",
                        detail: format!(
                            "c{m} restarted between leaving the base state of #{c} and receiving it; hydrated snapshots carry no timestamp"
                        ),
                    });
                }
            }
        }
        // depth beyond retention: not asserted by the property
        {
            // the snapshot of the base epoch is pruned once the client has been more than
            // `retention` epochs past it
            let depth = rec.max_epoch_before.saturating_sub(base_epoch);
            if depth as usize > cl.cfg.retention {
                return Some(Excuse {
                    key: "limit-fork-deeper-than-retention",
                    detail: format!("rollback distance {depth} exceeds retention {}", cl.cfg.retention),
                });
            }
        }
        if cl.cfg.retention == 0 {
            return Some(Excuse {
                key: "limit-fork-deeper-than-retention",
                detail: "retention 0".into(),
            });
        }
    }
    None
}

pub struct Convergence {
    pub agreed: usize,
    pub skipped: BTreeMap<String, u64>,
    pub excused: Vec<String>,
}

/// C01 (a)+(b)+(c): agreement on the reference state, rollback discipline, prefix safety.
pub fn check_convergence(
    w: &World,
    chain: &[ChainState],
    mode: Mode,
) -> Result<Convergence, Failure> {
    let last = chain.last().expect("chain has the initial state");
    let final_roster = last.roster();
    let chain_keys: BTreeSet<StateKey> = chain.iter().map(|c| c.key.clone()).collect();
    let mut conv = Convergence {
        agreed: 0,
        skipped: BTreeMap::new(),
        excused: vec![],
    };
    let mut skip = |conv: &mut Convergence, k: &str| {
        *conv.skipped.entry(k.to_string()).or_insert(0) += 1;
    };

    // (b) rollback discipline
    for &m in &w.actors() {
        let cl = &w.clients[m];
        for rb in &cl.rollbacks {
            let Some(before) = &rb.state_before else { continue };
            let Some(j) = chain_index(chain, before) else { continue };
            // the abandoned states chain[t+1..=j] are all chain states
            let t = chain.iter().position(|c| c.key.epoch == rb.target_epoch);
            if let Some(t) = t {
                if t < j {
                    let head = w
                        .relay
                        .iter()
                        .position(|e| e.ev.id == rb.head)
                        .map(|i| format!("#{i} ({:?}, {})", w.relay[i].class, w.relay[i].what))
                        .unwrap_or_else(|| rb.head.to_hex());
                    return Err(Failure::new(
                        "rollback-away-from-selected-chain",
                        format!(
                            "c{m} was in the MIP-03 selected state {} and rolled back to epoch {} because of event {head} (step {}, outcome {})",
                            before.short(),
                            rb.target_epoch,
                            rb.step,
                            rb.outcome.tag()
                        ),
                    ));
                }
            }
        }
    }

    for &m in &w.actors() {
        let cl = &w.clients[m];
        if cl.mdk.is_none() {
            continue;
        }
        let pk = cl.pk_hex();
        if cl.reached.is_empty() {
            skip(&mut conv, "never-joined");
            continue;
        }
        if !final_roster.contains(&pk) {
            skip(&mut conv, "not-in-final-roster");
            continue;
        }
        if !cl.reached.iter().any(|k| chain_keys.contains(k)) {
            skip(&mut conv, "joined-through-losing-commit");
            continue;
        }
        let lvl = w
            .level(m)
            .map_err(|e| Failure::new("state-unreadable", format!("c{m}: {e}")))?;
        if lvl.as_ref() == Some(&last.level) {
            conv.agreed += 1;
            continue;
        }
        // diverged or stalled
        let here = cl.cur.as_ref().and_then(|k| chain_index(chain, k));
        if let (Some(i), Some(l)) = (here, &lvl) {
            if *l != chain[i].level {
                return Err(Failure::new(
                    "state-differs-from-reference-at-same-epoch",
                    format!(
                        "c{m} has the MLS state of chain index {i} ({}) but its observable group differs from the reference replica's: {}",
                        chain[i].key.short(),
                        diff_levels(l, &chain[i].level)
                    ),
                ));
            }
        }
        // fork point: the furthest chain state this client has ever been in
        let i = chain
            .iter()
            .rposition(|c| cl.reached.contains(&c.key))
            .expect("intersection checked above");
        let describe = |w: &World| {
            format!(
                "c{m} ({:?}, admin={}) ends at {} (group state {:?}); reference chain: {}; furthest chain state reached: index {i}",
                cl.kind,
                w.is_admin_locally(m),
                cl.cur.as_ref().map(|k| k.short()).unwrap_or("-".into()),
                w.group_state(m),
                chain.iter().map(|c| c.key.short()).collect::<Vec<_>>().join(" -> "),
            )
        };
        if i + 1 >= chain.len() {
            return Err(Failure::new(
                "left-the-selected-final-state",
                format!("{}; it had reached the final state and is no longer in it", describe(w)),
            ));
        }
        let next = chain[i + 1].commit.expect("non-initial chain state has a commit");
        let mut excuse = excuse_for_commit(w, m, next);
        if excuse.is_none() && here.is_none() {
            if let Some(x) = cl.evicted_by {
                if !chain.iter().any(|c| c.commit == Some(x)) {
                    excuse = Some(Excuse {
                        key: "O22-eviction-by-losing-commit-is-final",
                        detail: format!(
                            "c{m} was removed by commit #{x}, which is not on the selected chain; an evicted client refuses every later event, so it can never adopt the winner"
                        ),
                    });
                }
            }
        }
        if excuse.is_none() && here.is_none() {
            // O9: its own commit swept foreign proposals although it is not an admin
            for (own, _, _) in &cl.applied {
                let e = &w.relay[*own];
                if e.author == m
                    && !e.deps.is_empty()
                    && !e.auto_commit
                    && !chain.iter().any(|c| c.commit == Some(*own))
                    && e.what == "self_update"
                {
                    excuse = Some(Excuse {
                        key: "O9-commit-sweeps-foreign-pending-proposals",
                        detail: format!(
                            "c{m}'s self_update #{own} swept pending proposals {:?} of other members, so everyone else refused it while c{m} applied it",
                            e.deps
                        ),
                    });
                }
            }
        }
        if excuse.is_none() && here.is_none() {
            // on a dead branch of its own making?
            for &own in &cl.immediate {
                if !chain.iter().any(|c| c.commit == Some(own)) {
                    excuse = Some(Excuse {
                        key: "O6-immediate-merge-has-no-snapshot",
                        detail: format!(
                            "c{m} applied its own commit #{own} with merge_pending_commit and that commit lost"
                        ),
                    });
                    break;
                }
            }
        }
        match (excuse, mode) {
            (Some(e), Mode::Normal) => {
                conv.excused.push(e.key.to_string());
            }
            (Some(e), Mode::Strict) => {
                return Err(Failure::new(
                    &format!("diverged:{}", e.key),
                    format!("{}; {}", describe(w), e.detail),
                ));
            }
            (None, _) => {
                let rec = cl.delivered.get(&next);
                return Err(Failure::new(
                    if here.is_some() {
                        "stalled-behind-selected-commit"
                    } else {
                        "diverged-from-selected-chain"
                    },
                    format!(
                        "{}; next selected commit is #{next} ({}), handed to it {} time(s), first outcome {:?}, last outcome {:?}, first at step {:?} in state {:?}",
                        describe(w),
                        w.relay[next].what,
                        rec.map(|r| r.count).unwrap_or(0),
                        rec.map(|r| r.first_outcome.clone()),
                        rec.map(|r| r.last_outcome.clone()),
                        rec.map(|r| r.first_step),
                        rec.and_then(|r| r.first_state.as_ref().map(|s| s.short())),
                    ),
                ));
            }
        }
    }
    Ok(conv)
}

pub fn diff_levels(a: &crate::fingerprint::GroupLevel, b: &crate::fingerprint::GroupLevel) -> String {
    let mut out = vec![];
    if a.epoch != b.epoch {
        out.push(format!("epoch {} vs {}", a.epoch, b.epoch));
    }
    if a.auth != b.auth {
        out.push("epoch authenticator differs".to_string());
    }
    if a.members != b.members {
        out.push(format!("members {:?} vs {:?}", a.members, b.members));
    }
    if a.ext != b.ext {
        out.push(format!("extension {:?} vs {:?}", a.ext, b.ext));
    }
    if a.relays != b.relays {
        out.push(format!("relays {:?} vs {:?}", a.relays, b.relays));
    }
    if a.record != b.record {
        out.push(format!("record {:?} vs {:?}", a.record, b.record));
    }
    out.join("; ")
}

/// Classification of a finished world for the evidence file.
pub fn classify(w: &World, chain: &[ChainState], rep: &mut CaseReport) {
    let mut by_base: BTreeMap<StateKey, Vec<usize>> = BTreeMap::new();
    for (i, e) in w.relay.iter().enumerate() {
        if e.class == Class::Commit {
            if let Some(b) = &e.base {
                by_base.entry(b.clone()).or_default().push(i);
            }
        }
    }
    let mut max_width = 0;
    let mut tie = false;
    for v in by_base.values() {
        max_width = max_width.max(v.len());
        for a in 0..v.len() {
            for b in (a + 1)..v.len() {
                if w.relay[v[a]].ev.created_at == w.relay[v[b]].ev.created_at {
                    tie = true;
                }
            }
        }
    }
    let mut nontrivial = false;
    if max_width >= 2 {
        rep.classes.push(format!("fork-width-{}", max_width.min(4)));
        nontrivial = true;
    }
    if tie {
        rep.classes.push("timestamp-tie".into());
    }
    let mut rollbacks = 0;
    let mut max_depth = 0;
    let mut late_commit = false;
    for &m in &w.actors() {
        let cl = &w.clients[m];
        rollbacks += cl.rollbacks.len();
        for rb in &cl.rollbacks {
            if let Some(b) = &rb.state_before {
                max_depth = max_depth.max(b.epoch.saturating_sub(rb.target_epoch));
            }
            // role of the client that rolled back
            let head = w.relay.iter().position(|e| e.ev.id == rb.head);
            let role = if cl.own_pending.is_some() {
                "pending-committer"
            } else if head.map(|h| w.relay[h].author == m).unwrap_or(false) {
                "winning-committer"
            } else if cl.applied.iter().any(|(idx, _, _)| w.relay[*idx].author == m) {
                "losing-committer"
            } else {
                "bystander"
            };
            rep.classes.push(format!("rollback-by-{role}"));
        }
        for (idx, d) in &cl.delivered {
            if w.relay[*idx].class == Class::Commit && !d.first_at_base && w.relay[*idx].author != m {
                late_commit = true;
            }
        }
    }
    if rollbacks > 0 {
        rep.classes.push("rollback".into());
        rep.classes.push(format!("rollback-depth-{}", max_depth.min(5)));
        nontrivial = true;
    }
    if late_commit {
        rep.classes.push("commit-offered-outside-its-base-state".into());
        nontrivial = true;
    }
    rep.classes.push(format!("chain-length-{}", (chain.len() - 1).min(8)));
    rep.classes.push(match w.regime {
        Regime::Causal => "regime-causal".into(),
        Regime::Unrestricted => "regime-unrestricted".into(),
    });
    let kinds: BTreeSet<_> = w
        .actors()
        .iter()
        .filter(|&&i| !w.clients[i].reached.is_empty())
        .map(|&i| format!("{:?}", w.clients[i].kind))
        .collect();
    rep.classes.push(format!("backends-{}", kinds.into_iter().collect::<Vec<_>>().join("+")));
    if w.actors().iter().any(|&i| !w.clients[i].immediate.is_empty()) {
        rep.classes.push("apply-immediate".into());
    }
    if w.relay.iter().any(|e| e.auto_commit) {
        rep.classes.push("leave-auto-commit".into());
    }
    if let Some(sg) = &w.side {
        rep.classes.push("second-live-group".into());
        if sg.side_only.is_some() {
            rep.classes.push("second-live-group-with-a-client-in-it-only".into());
        }
        if sg.events.iter().any(|e| e.app.is_none()) {
            rep.classes.push("second-live-group-advanced-its-epoch".into());
        }
        *rep.counters.entry("cross-group-judgements".into()).or_insert(0) += sg.checks;
    }
    rep.nontrivial = nontrivial;
    for (k, v) in &w.counters {
        *rep.counters.entry(k.clone()).or_insert(0) += v;
    }
    let _ = Outcome::Commit;
}

// ---------------------------------------------------------------------------------------------
// observers (checked after every step)
// ---------------------------------------------------------------------------------------------

use crate::fingerprint::Full;
use crate::world::Observer;

/// C08: after every API call the stored record of an active group mirrors the MLS state.
#[derive(Default)]
pub struct MirrorObserver {
    pub checks: u64,
    pub nontrivial: u64,
    pub paths: BTreeMap<String, u64>,
    last_key: BTreeMap<usize, Option<StateKey>>,
    last_ext: BTreeMap<usize, Option<crate::fingerprint::ExtProj>>,
}

pub fn mirror_mismatch(l: &crate::fingerprint::GroupLevel) -> Option<String> {
    let mut d = vec![];
    if l.record.epoch != l.epoch {
        d.push(format!("record epoch {} vs MLS epoch {}", l.record.epoch, l.epoch));
    }
    if l.record.name != l.ext.name {
        d.push(format!("name {:?} vs {:?}", l.record.name, l.ext.name));
    }
    if l.record.description != l.ext.description {
        d.push(format!("description {:?} vs {:?}", l.record.description, l.ext.description));
    }
    if l.record.admins != l.ext.admins {
        d.push(format!("admins {:?} vs {:?}", l.record.admins, l.ext.admins));
    }
    if l.record.nostr_group_id != l.ext.nostr_group_id {
        d.push(format!(
            "nostr group id {} vs {}",
            l.record.nostr_group_id, l.ext.nostr_group_id
        ));
    }
    if l.record.image_hash != l.ext.image_hash {
        d.push("image hash".into());
    }
    if l.record.image_key != l.ext.image_key {
        d.push("image key".into());
    }
    if l.record.image_nonce != l.ext.image_nonce {
        d.push("image nonce".into());
    }
    if l.relays != l.ext.relays {
        d.push(format!("relays {:?} vs {:?}", l.relays, l.ext.relays));
    }
    if d.is_empty() { None } else { Some(d.join("; ")) }
}

impl MirrorObserver {
    pub fn check_client(&mut self, w: &World, who: usize, what: &str) -> Result<(), Failure> {
        if w.clients[who].mdk.is_none() {
            return Ok(());
        }
        if w.group_state(who) != Some(mdk_storage_traits::groups::types::GroupState::Active) {
            return Ok(());
        }
        let lvl = match w.level(who) {
            Ok(Some(l)) => l,
            Ok(None) => return Ok(()),
            Err(e) => {
                return Err(Failure::new(
                    "active-group-unreadable",
                    format!("after {what} at c{who}: {e}"),
                ));
            }
        };
        self.checks += 1;
        let key = Some(StateKey {
            epoch: lvl.epoch,
            auth: lvl.auth.clone(),
        });
        let changed = self.last_key.get(&who) != Some(&key)
            || self.last_ext.get(&who) != Some(&Some(lvl.ext.clone()));
        if changed {
            self.nontrivial += 1;
            *self.paths.entry(format!("state-changed-by:{what}")).or_insert(0) += 1;
        }
        self.last_key.insert(who, key);
        self.last_ext.insert(who, Some(lvl.ext.clone()));
        if let Some(d) = mirror_mismatch(&lvl) {
            return Err(Failure::new(
                "record-does-not-mirror-mls-state",
                format!(
                    "after {what} at c{who} ({:?}, step {}): {d}",
                    w.clients[who].kind, w.step
                ),
            ));
        }
        // ... and events are matched to the group by the id currently in force: looking that id
        // up must find this group
        let nid = hex::decode(&lvl.record.nostr_group_id).ok().and_then(|v| <[u8; 32]>::try_from(v).ok());
        if let Some(nid) = nid {
            let found = crate::on_mdk!(w.clients[who].mdk(), m => {
                use mdk_storage_traits::groups::GroupStorage;
                use openmls_traits::OpenMlsProvider;
                m.provider.storage().find_group_by_nostr_group_id(&nid).map(|g| g.map(|g| g.mls_group_id))
            });
            match found {
                Ok(Some(g)) if g == w.gid => {}
                other => {
                    return Err(Failure::new(
                        "group-not-reachable-under-its-own-nostr-group-id",
                        format!(
                            "after {what} at c{who} ({:?}, step {}): the record carries Nostr group id {}, looking it up finds {}",
                            w.clients[who].kind,
                            w.step,
                            crate::fingerprint::sh(&lvl.record.nostr_group_id, 8),
                            match other { Ok(Some(_)) => "another group".to_string(), Ok(None) => "nothing".to_string(), Err(e) => format!("an error ({e})") }
                        ),
                    ));
                }
            }
        }
        Ok(())
    }
}

impl Observer for MirrorObserver {
    fn after_call(&mut self, w: &World, who: usize, what: &str) -> Result<(), Failure> {
        self.check_client(w, who, what)
    }
}

/// C07: handing a client again an event that already took effect there changes nothing.
#[derive(Default)]
pub struct RedeliveryObserver {
    pub checked: u64,
    pub nontrivial: u64,
    pub kinds: BTreeMap<String, u64>,
}

impl Observer for RedeliveryObserver {
    fn wants_before(&self) -> bool {
        true
    }
    fn after_delivery(
        &mut self,
        w: &World,
        who: usize,
        idx: usize,
        before: Option<&Vec<Full>>,
        outcome: &Outcome,
        redelivery: bool,
    ) -> Result<(), Failure> {
        if !redelivery {
            // the first echo of an own application message confirms that message (its state
            // moves to processed) - for everything else the client stores it is a re-delivery of
            // something already handled: no other message may change or disappear
            if let (Some(before_all), Outcome::App(_)) = (before, outcome) {
                let ev = &w.relay[idx];
                if ev.author == who && ev.class == Class::App && ev.forged.is_none() && ev.replay_of.is_none() {
                    let after_all = w.full_all(who);
                    let own_id = ev.rumor.as_ref().and_then(|r| r.id).map(|i| i.to_hex());
                    let Some(own_id) = own_id else { return Ok(()) };
                    *self.kinds.entry("first-echo-of-own-message".into()).or_insert(0) += 1;
                    self.checked += 1;
                    for (gi, (b, a)) in before_all.iter().zip(after_all.iter()).enumerate() {
                        for y in b.msgs_created.iter().filter(|y| y.id != own_id) {
                            match a.msgs_created.iter().find(|x| x.id == y.id) {
                                Some(x) if x == y => {}
                                other => {
                                    return Err(Failure::new(
                                        "redelivery-changed-state",
                                        format!(
                                            "the echo of c{who}'s own message #{idx} ({}) changed another stored message of group#{gi}: {} ({:?}, {}) -> {}",
                                            ev.what,
                                            crate::fingerprint::sh(&y.id, 8),
                                            y.content,
                                            y.state,
                                            other.map(|x| format!("({:?}, {})", x.content, x.state)).unwrap_or_else(|| "gone".into())
                                        ),
                                    ));
                                }
                            }
                        }
                    }
                }
            }
            return Ok(());
        }
        let Some(before_all) = before else { return Ok(()) };
        let before = &before_all[0];
        let cl = &w.clients[who];
        let rec = cl.delivered.get(&idx).expect("delivery recorded");
        // did an earlier hand-over take effect?
        // a commit took effect when the client's state actually moved on it (an own commit that
        // was superseded before its echo arrived is answered "commit" without any effect)
        let took_effect = match rec.first_outcome {
            Outcome::App(_) | Outcome::PendingProposal | Outcome::AutoCommit => true,
            _ => cl.applied.iter().any(|(a, seq, _)| *a == idx && *seq < w.delivery_seq),
        };
        if !took_effect {
            return Ok(());
        }
        // the first echo of an own commit / message is the confirmation, handled as first delivery
        let after_all = w.full_all(who);
        let after = after_all[0].clone();
        self.checked += 1;
        let ev = &w.relay[idx];
        let own = ev.author == who;
        let moved = rec.first_state != before.state_key();
        let kind = format!(
            "{}{:?}{}",
            if own { "own-" } else { "" },
            ev.class,
            if moved { "-after-state-change" } else { "-same-state" }
        );
        *self.kinds.entry(kind).or_insert(0) += 1;
        if moved {
            self.nontrivial += 1;
        }
        if *before_all != after_all {
            return Err(Failure::new(
                "redelivery-changed-state",
                format!(
                    "event #{idx} ({:?}, {}) had taken effect at c{who} (first outcome {}), handing it over again (outcome {}) changed the client: {}",
                    ev.class,
                    ev.what,
                    rec.first_outcome.tag(),
                    outcome.tag(),
                    diff_full(before, &after)
                ),
            ));
        }
        Ok(())
    }
}

pub fn diff_full(a: &Full, b: &Full) -> String {
    let mut d = vec![];
    if a.level != b.level {
        match (&a.level, &b.level) {
            (Some(x), Some(y)) => d.push(diff_levels(x, y)),
            _ => d.push(format!(
                "group presence {} -> {}",
                a.level.is_some(),
                b.level.is_some()
            )),
        }
    }
    if a.pending_commit != b.pending_commit {
        d.push(format!("pending commit {} -> {}", a.pending_commit, b.pending_commit));
    }
    if a.pending_proposal_count != b.pending_proposal_count
        || a.pending_adds != b.pending_adds
        || a.pending_removes != b.pending_removes
    {
        d.push(format!(
            "pending proposals {} -> {}",
            a.pending_proposal_count, b.pending_proposal_count
        ));
    }
    if a.own_leaf != b.own_leaf {
        d.push(format!("own leaf {:?} -> {:?}", a.own_leaf, b.own_leaf));
    }
    if a.self_update != b.self_update {
        d.push(format!("self-update state {} -> {}", a.self_update, b.self_update));
    }
    if a.last != b.last {
        d.push(format!("last-message pointer {:?} -> {:?}", a.last, b.last));
    }
    if a.snapshots != b.snapshots {
        d.push(format!("stored rollback snapshots {:?} -> {:?}", a.snapshots, b.snapshots));
    }
    if a.msgs_created != b.msgs_created {
        let ids_a: Vec<_> = a.msgs_created.iter().map(|m| (crate::fingerprint::sh(&m.id, 8), &m.state)).collect();
        let ids_b: Vec<_> = b.msgs_created.iter().map(|m| (crate::fingerprint::sh(&m.id, 8), &m.state)).collect();
        d.push(format!("messages {ids_a:?} -> {ids_b:?}"));
    } else if a.msgs_processed != b.msgs_processed {
        d.push("processed-at ordering of messages changed".into());
    }
    if a.present != b.present {
        d.push(format!("record present {} -> {}", a.present, b.present));
    }
    if a.mls_error != b.mls_error {
        d.push(format!("mls load {:?} -> {:?}", a.mls_error, b.mls_error));
    }
    d.join("; ")
}

pub struct Multi<'a>(pub Vec<&'a mut dyn Observer>);

impl Observer for Multi<'_> {
    fn after_call(&mut self, w: &World, who: usize, what: &str) -> Result<(), Failure> {
        for o in self.0.iter_mut() {
            o.after_call(w, who, what)?;
        }
        Ok(())
    }
    fn wants_before(&self) -> bool {
        self.0.iter().any(|o| o.wants_before())
    }
    fn after_delivery(
        &mut self,
        w: &World,
        who: usize,
        idx: usize,
        before: Option<&Vec<Full>>,
        outcome: &Outcome,
        redelivery: bool,
    ) -> Result<(), Failure> {
        for o in self.0.iter_mut() {
            o.after_delivery(w, who, idx, before, outcome, redelivery)?;
        }
        Ok(())
    }
}

// ---------------------------------------------------------------------------------------------
// C02: application messages
// ---------------------------------------------------------------------------------------------

#[derive(Default)]
pub struct MsgReport {
    pub checked_pairs: u64,
    pub nontrivial: u64,
    pub excused: Vec<String>,
    pub dont_care: u64,
    pub losing_checked: u64,
    pub classes: BTreeSet<String>,
}

/// Which clients agree with the reference's final state?
pub fn converged_clients(w: &World, chain: &[ChainState]) -> Vec<usize> {
    let last = chain.last().unwrap();
    w.actors()
        .into_iter()
        .filter(|&m| w.clients[m].mdk.is_some())
        .filter(|&m| matches!(w.level(m), Ok(Some(l)) if l == last.level))
        .collect()
}

pub fn check_messages(w: &World, chain: &[ChainState], mode: Mode) -> Result<MsgReport, Failure> {
    let mut rep = MsgReport::default();
    let converged = converged_clients(w, chain);
    let fulls: BTreeMap<usize, Full> = converged.iter().map(|&m| (m, w.full(m))).collect();

    // exactly-once in both listings
    for (&m, f) in &fulls {
        for (name, list) in [("created-at order", &f.msgs_created), ("processed-at order", &f.msgs_processed)] {
            let mut seen = BTreeSet::new();
            for x in list {
                if !seen.insert(x.id.clone()) {
                    return Err(Failure::new(
                        "message-listed-twice",
                        format!("c{m}: message {} appears twice in the {name} listing", crate::fingerprint::sh(&x.id, 8)),
                    ));
                }
            }
        }
        let a: BTreeSet<_> = f.msgs_created.iter().map(|x| x.id.clone()).collect();
        let b: BTreeSet<_> = f.msgs_processed.iter().map(|x| x.id.clone()).collect();
        if a != b {
            return Err(Failure::new(
                "listings-disagree",
                format!("c{m}: the two sort orders list different message sets"),
            ));
        }
    }

    for (idx, e) in w.relay.iter().enumerate() {
        if e.class != Class::App || e.withdrawn {
            continue;
        }
        let Some(rumor) = &e.rumor else { continue };
        let Some(base) = &e.base else { continue };
        let id = rumor.id.map(|i| i.to_hex()).unwrap_or_default();
        let on_chain = chain_index(chain, base);
        match on_chain {
            Some(i) => {
                let roster = chain[i].roster();
                for &m in &converged {
                    let cl = &w.clients[m];
                    if !roster.contains(&cl.pk_hex()) || !cl.reached.contains(base) {
                        continue;
                    }
                    let f = &fulls[&m];
                    let rec = cl.delivered.get(&idx);
                    // a client that was removed and invited again starts over with fresh key
                    // material: what it was first handed while evicted, or after it came back,
                    // about an epoch of its earlier membership, it cannot (and must not) read
                    if let Some(r) = rec {
                        if r.first_state.is_none() || cl.reached_stint.get(base).copied().unwrap_or(0) != r.first_stint {
                            rep.dont_care += 1;
                            rep.classes.insert("message-of-an-earlier-membership-stint".into());
                            continue;
                        }
                    } else if cl.reached_stint.get(base).copied().unwrap_or(0) != cl.stint {
                        rep.dont_care += 1;
                        continue;
                    }
                    // windows: don't-care when the receiver was too many epochs ahead
                    if let Some(r) = rec {
                        if let Some(fs) = &r.first_state {
                            let dist = fs.epoch.saturating_sub(base.epoch) as usize;
                            if dist > cl.cfg.max_past_epochs {
                                rep.dont_care += 1;
                                continue;
                            }
                            if dist > 0 {
                                rep.classes.insert(format!("delivered-{}-epochs-late", dist.min(6)));
                                rep.nontrivial += 1;
                            }
                        }
                        if r.count > 1 {
                            rep.classes.insert("duplicated".into());
                        }
                    }
                    rep.checked_pairs += 1;
                    let found: Vec<_> = f.msgs_created.iter().filter(|x| x.id == id).collect();
                    let mut excuse: Option<(&'static str, String)> = None;
                    if let Some(r) = rec {
                        if !r.first_reached_base {
                            excuse = Some((
                                "O2-premature-delivery-is-final",
                                format!("message #{idx} was first handed to c{m} before it reached the sender's epoch"),
                            ));
                        } else if e.author != m {
                            // O4: filed under the receiver's epoch when processed on a branch
                            // that was later rolled back
                            if let Some(fs) = &r.first_state {
                                if chain_index(chain, fs).is_none() && fs.epoch > base.epoch {
                                    excuse = Some((
                                        "O4-message-filed-under-receivers-epoch",
                                        format!(
                                            "message #{idx} (sent in {}) was processed by c{m} while it was on the losing branch state {}; it was filed under epoch {} and invalidated by the rollback",
                                            base.short(),
                                            fs.short(),
                                            fs.epoch
                                        ),
                                    ));
                                }
                            }
                        }
                        // sender-ratchet window (configurable): a message too far ahead of, or too
                        // far behind, what the receiver had already been given from that sender in
                        // that epoch may be refused. Rollbacks reset the receiver's ratchet to an
                        // earlier position, so the exact head is not known: the message MUST be
                        // accepted only if it is inside the window for every head between 0 and
                        // the highest position handed over before (one position of slack).
                        if excuse.is_none() && e.author != m {
                            if let Some(g) = e.generation {
                                let highest_before = w
                                    .relay
                                    .iter()
                                    .enumerate()
                                    .filter(|(j, o)| *j != idx && o.class == Class::App && o.author == e.author && o.base == e.base)
                                    .filter_map(|(j, o)| cl.delivered.get(&j).filter(|d| d.first_seq < r.first_seq).and(o.generation))
                                    .max();
                                let head_max = highest_before.map(|h| h + 1).unwrap_or(0);
                                let fwd = cl.cfg.maximum_forward_distance;
                                let tol = cl.cfg.out_of_order_tolerance;
                                let too_far_ahead = g + 1 >= fwd;
                                let too_far_behind = g < head_max && head_max - g + 1 >= tol;
                                if too_far_ahead || too_far_behind {
                                    rep.dont_care += 1;
                                    rep.classes.insert(if too_far_ahead { "outside-the-forward-distance".into() } else { "outside-the-out-of-order-tolerance".into() });
                                    continue;
                                }
                                if g > head_max + 2 || (g + 2 < head_max) {
                                    rep.classes.insert("skipped-or-late-inside-the-ratchet-window".into());
                                    rep.nontrivial += 1;
                                }
                            }
                        }
                        if excuse.is_none() && !r.first_routed {
                            excuse = Some((
                                "O23-event-tagged-with-superseded-nostr-group-id-is-dropped",
                                format!("message #{idx} was first handed to c{m} after it had applied a commit that rotated the Nostr group id; the event carries the id of its own epoch, is answered 'group not found' and recorded as failed"),
                            ));
                        }
                    }
                    let problem = if found.is_empty() {
                        Some("is missing".to_string())
                    } else {
                        let x = found[0];
                        let want_tags = serde_json::to_string(&rumor.tags).unwrap_or_default();
                        if x.pubkey != rumor.pubkey.to_hex()
                            || x.kind != rumor.kind.as_u16()
                            || x.created_at != rumor.created_at.as_secs()
                            || x.content != rumor.content
                            || x.tags != want_tags
                        {
                            // altered content is never excusable
                            excuse = None;
                            Some(format!(
                                "differs from what the sender created: stored ({}, kind {}, at {}, {:?}, tags {}) vs sent ({}, kind {}, at {}, {:?}, tags {})",
                                crate::fingerprint::sh(&x.pubkey, 8), x.kind, x.created_at, x.content, x.tags,
                                crate::fingerprint::sh(&rumor.pubkey.to_hex(), 8), rumor.kind.as_u16(), rumor.created_at.as_secs(), rumor.content, want_tags
                            ))
                        } else if x.state != "processed" {
                            Some(format!("is in state {:?} instead of processed", x.state))
                        } else {
                            None
                        }
                    };
                    if let Some(p) = problem {
                        match (excuse, mode) {
                            (Some((k, _)), Mode::Normal) => rep.excused.push(k.to_string()),
                            (Some((k, d)), Mode::Strict) => {
                                return Err(Failure::new(&format!("message:{k}"), format!("c{m}: message #{idx} {p}; {d}")));
                            }
                            (None, _) => {
                                return Err(Failure::new(
                                    "winning-branch-message-not-valid-exactly-once",
                                    format!(
                                        "message #{idx} ({}) sent by c{} in selected state {} {p} at c{m} ({:?}); handed over {} time(s), first outcome {:?} in state {:?}, last outcome {:?}",
                                        e.what,
                                        e.author,
                                        base.short(),
                                        cl.kind,
                                        rec.map(|r| r.count).unwrap_or(0),
                                        rec.map(|r| r.first_outcome.clone()),
                                        rec.and_then(|r| r.first_state.as_ref().map(|s| s.short())),
                                        rec.map(|r| r.last_outcome.clone()),
                                    ),
                                ));
                            }
                        }
                    }
                }
            }
            None => {
                // created on a losing branch: never left valid on a converged client
                for &m in &converged {
                    let f = &fulls[&m];
                    rep.losing_checked += 1;
                    if let Some(x) = f.msgs_created.iter().find(|x| x.id == id) {
                        rep.nontrivial += 1;
                        rep.classes.insert("losing-branch-message-held".into());
                        if x.state != "epoch_invalidated" {
                            return Err(Failure::new(
                                "losing-branch-message-left-valid",
                                format!(
                                    "message #{idx} ({}) was created by c{} in {} which is not on the selected chain, yet c{m} (converged) holds it in state {:?}",
                                    e.what,
                                    e.author,
                                    base.short(),
                                    x.state
                                ),
                            ));
                        }
                    }
                }
            }
        }
    }
    Ok(rep)
}

/// C18(b): the cached last-message pointer designates the head of the default order among
/// the messages that are not invalidated.
#[derive(Default)]
pub struct PointerObserver {
    pub checks: u64,
    pub nontrivial: u64,
    pub classes: BTreeSet<String>,
}

impl PointerObserver {
    pub fn check_client(&mut self, w: &World, who: usize, what: &str) -> Result<(), Failure> {
        if w.clients[who].mdk.is_none()
            || w.group_state(who) != Some(mdk_storage_traits::groups::types::GroupState::Active)
        {
            return Ok(());
        }
        let f = w.full(who);
        self.checks += 1;
        let valid: Vec<&crate::fingerprint::MsgProj> =
            f.msgs_created.iter().filter(|m| m.state != "epoch_invalidated").collect();
        let head = valid.first();
        let any_invalid = f.msgs_created.iter().any(|m| m.state == "epoch_invalidated");
        if any_invalid {
            self.classes.insert("pointer-checked-with-invalidated-messages".into());
            self.nontrivial += 1;
        }
        let mut ties = false;
        for p in f.msgs_created.windows(2) {
            if p[0].created_at == p[1].created_at {
                ties = true;
            }
        }
        if ties {
            self.classes.insert("pointer-checked-with-created-at-ties".into());
            self.nontrivial += 1;
        }
        // the listing itself must be in the documented order
        for p in f.msgs_created.windows(2) {
            let ka = (p[0].created_at, p[0].processed_at, &p[0].id);
            let kb = (p[1].created_at, p[1].processed_at, &p[1].id);
            if ka <= kb {
                return Err(Failure::new(
                    "listing-not-in-documented-order",
                    format!("after {what} at c{who}: {} listed before {}", &p[0].id[..8], &p[1].id[..8]),
                ));
            }
        }
        let want = match head {
            Some(h) => (Some(h.id.clone()), Some(h.created_at), Some(h.processed_at)),
            None => (None, None, None),
        };
        let got = (f.last.id.clone(), f.last.at, f.last.processed_at);
        if want != got {
            return Err(Failure::new(
                "last-message-pointer-is-not-the-head",
                format!(
                    "after {what} at c{who} ({:?}, step {}): pointer (id {:?}, at {:?}, processed {:?}) but the first non-invalidated message of the default order is (id {:?}, at {:?}, processed {:?}); listing: {:?}",
                    w.clients[who].kind,
                    w.step,
                    got.0.as_ref().map(|s| crate::fingerprint::sh(&s, 8)),
                    got.1,
                    got.2,
                    want.0.as_ref().map(|s| crate::fingerprint::sh(&s, 8)),
                    want.1,
                    want.2,
                    f.msgs_created.iter().map(|m| format!("{}@{}/{}:{}", crate::fingerprint::sh(&m.id, 6), m.created_at, m.processed_at, m.state)).collect::<Vec<_>>()
                ),
            ));
        }
        Ok(())
    }
}

impl Observer for PointerObserver {
    fn after_call(&mut self, w: &World, who: usize, what: &str) -> Result<(), Failure> {
        self.check_client(w, who, what)
    }
}

// ---------------------------------------------------------------------------------------------
// C05: authorisation of roster / data changes, identity stability, refused => unchanged
// ---------------------------------------------------------------------------------------------

#[derive(Default)]
pub struct AuthzObserver {
    pub strict: bool,
    pub judged: u64,
    pub nontrivial: u64,
    pub classes: BTreeSet<String>,
    pub excused: Vec<String>,
}

fn rollback_fired_now(w: &World, who: usize, idx: usize) -> bool {
    w.clients[who]
        .rollbacks
        .iter()
        .any(|rb| rb.step == w.step && rb.head == w.relay[idx].ev.id)
}

impl Observer for AuthzObserver {
    fn wants_before(&self) -> bool {
        true
    }
    fn after_delivery(
        &mut self,
        w: &World,
        who: usize,
        idx: usize,
        before: Option<&Vec<Full>>,
        outcome: &Outcome,
        _redelivery: bool,
    ) -> Result<(), Failure> {
        let Some(before_all) = before else { return Ok(()) };
        let ev = &w.relay[idx];
        if !matches!(ev.class, Class::Commit | Class::Proposal) || ev.other_group {
            return Ok(());
        }
        let before = &before_all[0];
        let after_all = w.full_all(who);
        let after = &after_all[0];
        self.judged += 1;
        // the echo of an own commit merges whatever commit is pending at that moment - which is
        // another one when the echoed commit was superseded meanwhile: judge what was applied
        let ev = match w.own_pending_before_delivery {
            Some(p) if (ev.author == who || w.relay[root_of(w, idx)].author == who) && p != idx && matches!(outcome, Outcome::Commit) && w.relay[p].author == who => {
                self.classes.insert("own-echo-merged-a-newer-pending-commit".into());
                &w.relay[p]
            }
            _ => ev,
        };
        let author_pk = w.clients[ev.author].pk_hex();
        let rolled = rollback_fired_now(w, who, idx);
        let describe = || {
            format!(
                "event #{idx} ({:?}, {}) by c{} handed to c{who} at step {}: outcome {}{}",
                ev.class, ev.what, ev.author, w.step, outcome.tag(),
                if std::env::var("VCHECK_C05_DEBUG").is_ok() {
                    format!(" [rollbacks seen at this client: {:?}; this event {}]", w.clients[who].rollbacks.iter().map(|r| (r.step, r.target_epoch, r.head.to_hex()[..8].to_string())).collect::<Vec<_>>(), &ev.ev.id.to_hex()[..8])
                } else {
                    String::new()
                }
            )
        };
        if let Some(r) = &ev.named.rogue {
            self.classes.insert(format!("rogue-{:?}-{r}->{}", ev.class, outcome.tag()));
        }
        // ---- refused: nothing may change
        if outcome.is_failure_class() {
            if *before_all != after_all {
                if rolled {
                    if self.strict {
                        return Err(Failure::new(
                            "refused-event-rolled-the-group-back",
                            format!("{}; the group was rolled back before the event was refused: {}", describe(), diff_full(before, after)),
                        ));
                    }
                    self.excused.push("O15-rollback-before-validation".into());
                    return Ok(());
                }
                return Err(Failure::new(
                    "rejected-event-changed-the-group",
                    format!("{}; yet the client changed: {}", describe(), diff_full(before, after)),
                ));
            }
            if ev.named.rogue.is_some() {
                self.nontrivial += 1;
            }
            return Ok(());
        }
        match outcome {
            Outcome::PendingProposal | Outcome::AutoCommit => {
                // a proposal alone changes nothing but the pending queue
                let mut b = before.clone();
                let mut a = after.clone();
                for f in [&mut b, &mut a] {
                    f.pending_adds.clear();
                    f.pending_removes.clear();
                    f.pending_proposal_count = 0;
                    f.pending_commit = false;
                }
                if b != a {
                    return Err(Failure::new(
                        "proposal-took-effect-by-itself",
                        format!("{}; beyond the pending queue the client changed: {}", describe(), diff_full(&b, &a)),
                    ));
                }
                if *outcome == Outcome::AutoCommit {
                    let self_leave = ev.named.proposes_remove == vec![author_pk.clone()];
                    if !self_leave {
                        return Err(Failure::new(
                            "proposal-auto-committed",
                            format!("{}; only a member's own leave request may be committed automatically", describe()),
                        ));
                    }
                }
                if ev.named.rogue.is_some() {
                    self.nontrivial += 1;
                }
            }
            Outcome::Commit => {
                if before.state_key() == after.state_key() || rolled {
                    if rolled {
                        self.classes.insert("delta-not-judged-after-rollback".into());
                    }
                    return Ok(());
                }
                let (Some(bl), Some(al)) = (&before.level, &after.level) else {
                    // eviction of this client: judged by C03
                    return Ok(());
                };
                let is_admin = bl.ext.admins.contains(&author_pk);
                let b_ids: BTreeSet<String> = bl.members.iter().map(|(_, p)| p.clone()).collect();
                let a_ids: BTreeSet<String> = al.members.iter().map(|(_, p)| p.clone()).collect();
                let removed: BTreeSet<String> = b_ids.difference(&a_ids).cloned().collect();
                let added: BTreeSet<String> = a_ids.difference(&b_ids).cloned().collect();
                let data_changed = bl.ext != al.ext || bl.relays != al.relays;
                // identities never move
                for (i, id) in &bl.members {
                    if let Some((_, id2)) = al.members.iter().find(|(j, _)| j == i) {
                        if id2 != id && !removed.contains(id) {
                            return Err(Failure::new(
                                "identity-changed-at-existing-leaf",
                                format!("{}; leaf {i} changed identity {} -> {}", describe(), crate::fingerprint::sh(&id, 8), crate::fingerprint::sh(&id2, 8)),
                            ));
                        }
                    }
                }
                if !is_admin {
                    self.nontrivial += 1;
                    self.classes.insert("accepted-commit-from-non-admin".into());
                    if !removed.is_empty() || !added.is_empty() || data_changed {
                        return Err(Failure::new(
                            "non-admin-commit-changed-roster-or-data",
                            format!(
                                "{}; author is not an admin in the receiver's epoch, yet removed {:?}, added {:?}, data changed: {}",
                                describe(),
                                removed.iter().map(|s| crate::fingerprint::sh(&s, 8)).collect::<Vec<_>>(),
                                added.iter().map(|s| crate::fingerprint::sh(&s, 8)).collect::<Vec<_>>(),
                                data_changed
                            ),
                        ));
                    }
                } else {
                    // what the author held pending when it committed
                    let mut dep_self_leave = BTreeSet::new();
                    let mut dep_foreign_remove = BTreeSet::new();
                    let mut dep_foreign_add = BTreeSet::new();
                    for d in &ev.deps {
                        let p = &w.relay[*d];
                        let proposer = w.clients[p.author].pk_hex();
                        for r in &p.named.proposes_remove {
                            if *r == proposer {
                                dep_self_leave.insert(r.clone());
                            } else {
                                dep_foreign_remove.insert(r.clone());
                            }
                        }
                        for a in &p.named.proposes_add {
                            dep_foreign_add.insert(a.clone());
                        }
                    }
                    if !ev.deps.is_empty() {
                        self.nontrivial += 1;
                        self.classes.insert("admin-commit-with-foreign-proposals-pending".into());
                    }
                    let unnamed_removed: BTreeSet<String> = removed
                        .iter()
                        .filter(|r| !ev.named.removed.contains(r) && !ev.named.leave_of.contains(r) && !dep_self_leave.contains(*r))
                        .cloned()
                        .collect();
                    let unnamed_added: BTreeSet<String> =
                        added.iter().filter(|a| !ev.named.added.contains(a)).cloned().collect();
                    let unnamed_data = data_changed && !ev.named.data_change;
                    if !unnamed_removed.is_empty() || !unnamed_added.is_empty() || unnamed_data {
                        let by_o9 = unnamed_removed.is_subset(&dep_foreign_remove)
                            && unnamed_added.is_subset(&dep_foreign_add)
                            && !unnamed_data;
                        let detail = format!(
                            "{}{}; the call named removed {:?} / added {:?} / data change {}, but the receiver saw removed {:?}, added {:?}, data changed {}",
                            describe(),
                            if std::env::var("VCHECK_C05_DEBUG").is_ok() { format!(" [members before {:?} after {:?}; clients {:?}]", bl.members.iter().map(|(i, p)| (*i, p[..6].to_string())).collect::<Vec<_>>(), al.members.iter().map(|(i, p)| (*i, p[..6].to_string())).collect::<Vec<_>>(), w.clients.iter().map(|c| c.pk_hex()[..6].to_string()).collect::<Vec<_>>()) } else { String::new() },
                            ev.named.removed.iter().map(|s| crate::fingerprint::sh(&s, 8)).collect::<Vec<_>>(),
                            ev.named.added.iter().map(|s| crate::fingerprint::sh(&s, 8)).collect::<Vec<_>>(),
                            ev.named.data_change,
                            removed.iter().map(|s| crate::fingerprint::sh(&s, 8)).collect::<Vec<_>>(),
                            added.iter().map(|s| crate::fingerprint::sh(&s, 8)).collect::<Vec<_>>(),
                            data_changed
                        );
                        if by_o9 && !self.strict {
                            self.excused.push("O9-commit-sweeps-foreign-pending-proposals".into());
                        } else if by_o9 {
                            return Err(Failure::new("admin-commit-carried-foreign-proposals", detail));
                        } else {
                            return Err(Failure::new("commit-changed-more-than-it-names", detail));
                        }
                    }
                    // field by field: an update touches the fields it names and no others
                    if !ev.named.data_fields.is_empty() && ev.deps.is_empty() && ev.named.rogue.is_none() {
                        let (b, a) = (&bl.ext, &al.ext);
                        let touched: Vec<&str> = [
                            ("name", b.name != a.name),
                            ("description", b.description != a.description),
                            ("relays", b.relays != a.relays),
                            ("admins", b.admins != a.admins),
                            ("nostr_group_id", b.nostr_group_id != a.nostr_group_id),
                            ("image_hash", b.image_hash != a.image_hash),
                            ("image_key", b.image_key != a.image_key),
                            ("image_nonce", b.image_nonce != a.image_nonce),
                            ("image_upload_key", b.image_upload_key != a.image_upload_key),
                        ]
                        .iter()
                        .filter(|(_, changed)| *changed)
                        .map(|(n, _)| *n)
                        .collect();
                        // (documented coupling: clearing the image hash clears key, nonce and upload key)
                        let clears_image = ev.named.data_fields.iter().any(|f| f == "image_hash") && a.image_hash.is_none();
                        let unnamed: Vec<&str> = touched
                            .iter()
                            .copied()
                            .filter(|n| !ev.named.data_fields.iter().any(|f| f == n))
                            .filter(|n| !(clears_image && matches!(*n, "image_key" | "image_nonce" | "image_upload_key")))
                            .collect();
                        if !unnamed.is_empty() {
                            return Err(Failure::new(
                                "commit-changed-more-than-it-names",
                                format!("{}; the update named the fields {:?}, but the receiver also saw {:?} change", describe(), ev.named.data_fields, unnamed),
                            ));
                        }
                        self.classes.insert("update-judged-field-by-field".into());
                    }
                    // ... and nothing less: everything the call named has happened
                    if ev.named.rogue.is_none() {
                        let missing_removed: Vec<&String> =
                            ev.named.removed.iter().filter(|r| b_ids.contains(*r) && !removed.contains(*r)).collect();
                        let missing_added: Vec<&String> =
                            ev.named.added.iter().filter(|a| !b_ids.contains(*a) && !added.contains(*a)).collect();
                        if ev.named.removed.len() + ev.named.added.len() > 1 {
                            self.classes.insert("admin-call-naming-several-members".into());
                        }
                        if !missing_removed.is_empty() || !missing_added.is_empty() {
                            return Err(Failure::new(
                                "commit-changed-less-than-it-names",
                                format!(
                                    "{}; the call named removed {:?} / added {:?}, but at the receiver {:?} were not removed and {:?} not added",
                                    describe(),
                                    ev.named.removed.iter().map(|s| crate::fingerprint::sh(&s, 8)).collect::<Vec<_>>(),
                                    ev.named.added.iter().map(|s| crate::fingerprint::sh(&s, 8)).collect::<Vec<_>>(),
                                    missing_removed.iter().map(|s| crate::fingerprint::sh(&s, 8)).collect::<Vec<_>>(),
                                    missing_added.iter().map(|s| crate::fingerprint::sh(&s, 8)).collect::<Vec<_>>()
                                ),
                            ));
                        }
                    }
                }
            }
            _ => {}
        }
        Ok(())
    }
}

// ---------------------------------------------------------------------------------------------
// C04: stored messages are bound to their authenticated sender and to their own content
// ---------------------------------------------------------------------------------------------

#[derive(Default)]
pub struct AuthorBindingObserver {
    pub strict: bool,
    pub judged: u64,
    pub nontrivial: u64,
    pub classes: BTreeSet<String>,
}

/// canaries are "canary-<step>-<client>" / "forged-<step>-<client>"
pub fn canary_author(content: &str) -> Option<usize> {
    let mut it = content.split('-');
    let head = it.next()?;
    if head != "canary" && head != "forged" {
        return None;
    }
    let _step = it.next()?;
    it.next()?.parse().ok()
}

pub fn nip01_id_of(m: &crate::fingerprint::MsgProj) -> Option<String> {
    use nostr::JsonUtil;
    let ev = nostr::UnsignedEvent::from_json(&m.event_json).ok()?;
    let id = nostr::EventId::new(&ev.pubkey, &ev.created_at, &ev.kind, &ev.tags, &ev.content);
    Some(id.to_hex())
}

impl AuthorBindingObserver {
    pub fn check_store(&mut self, w: &World, who: usize, all: &[Full], ctx: &str) -> Result<(), Failure> {
        // a message id finds its message in the group that stores it and nothing in any other group
        // (the second group of some worlds may not have stored a single message yet)
        if all.len() > 1 {
            let gids: Vec<mdk_storage_traits::GroupId> = std::iter::once(w.gid.clone()).chain(w.extra_gids.iter().cloned()).collect();
            for (gi, f) in all.iter().enumerate() {
                for x in &f.msgs_created {
                    let Ok(id) = nostr::EventId::from_hex(&x.id) else { continue };
                    for (gj, g) in gids.iter().enumerate().take(all.len()) {
                        let got = on_mdk!(w.clients[who].mdk(), m => m.get_message(g, &id));
                        let listed = all[gj].msgs_created.iter().find(|y| y.id == x.id);
                        match (got, listed) {
                            (Ok(Some(m)), None) => {
                                return Err(Failure::new(
                                    "message-of-one-group-found-in-another",
                                    format!(
                                        "{ctx}: c{who} stores message {} ({:?}) in group#{gi} only, yet looking it up by id in group#{gj} returns it (author {}, content {:?})",
                                        crate::fingerprint::sh(&x.id, 8), x.content, crate::fingerprint::sh(&m.pubkey.to_hex(), 8), m.content
                                    ),
                                ));
                            }
                            (Ok(Some(m)), Some(y)) if m.pubkey.to_hex() != y.pubkey || m.content != y.content => {
                                return Err(Failure::new(
                                    "message-of-one-group-found-in-another",
                                    format!("{ctx}: c{who} group#{gj}: looking up {} by id returns ({}, {:?}), the listing has ({}, {:?})", crate::fingerprint::sh(&x.id, 8), crate::fingerprint::sh(&m.pubkey.to_hex(), 8), m.content, crate::fingerprint::sh(&y.pubkey, 8), y.content),
                                ));
                            }
                            (Ok(None), Some(_)) => {
                                return Err(Failure::new("stored-message-not-found-by-id", format!("{ctx}: c{who} group#{gj} lists message {} but the lookup by id finds nothing", crate::fingerprint::sh(&x.id, 8))));
                            }
                            _ => {}
                        }
                    }
                }
            }
        }
        for (gi, f) in all.iter().enumerate() {
            let mut seen = BTreeSet::new();
            for x in &f.msgs_created {
                // what a forging client keeps in its own store about its own forgery is its
                // own business; the property is about what honest receivers end up with
                if x.content.starts_with("forged-") && canary_author(&x.content) == Some(who) {
                    continue;
                }
                if let Some(a) = canary_author(&x.content) {
                    let want = w.clients[a].pk_hex();
                    if x.pubkey != want {
                        return Err(Failure::new(
                            "message-attributed-to-wrong-identity",
                            format!("{ctx}: c{who} group#{gi} stores message {:?} under author {} but it was produced by c{a} ({})", x.content, crate::fingerprint::sh(&x.pubkey, 8), crate::fingerprint::sh(&want, 8)),
                        ));
                    }
                }
                // the stored event must be the stored columns
                if let Ok(ev) = {
                    use nostr::JsonUtil;
                    nostr::UnsignedEvent::from_json(&x.event_json)
                } {
                    // (an id carried inside the stored rumor is part of the stored event too)
                    let inner_id_differs = ev.id.map(|i| i.to_hex() != x.id).unwrap_or(false);
                    if inner_id_differs || ev.pubkey.to_hex() != x.pubkey || ev.content != x.content || ev.created_at.as_secs() != x.created_at || ev.kind.as_u16() != x.kind {
                        return Err(Failure::new(
                            "stored-event-differs-from-stored-columns",
                            format!("{ctx}: c{who} message {}", crate::fingerprint::sh(&x.id, 8)),
                        ));
                    }
                }
                match nip01_id_of(x) {
                    Some(h) if h == x.id => {}
                    other => {
                        return Err(Failure::new(
                            "stored-id-is-not-the-hash-of-stored-fields",
                            format!(
                                "{ctx}: c{who} stores message {:?} under id {} but the NIP-01 hash of its author, timestamp, kind, tags and content is {:?}",
                                x.content, crate::fingerprint::sh(&x.id, 12), other.map(|s| s[..12].to_string())
                            ),
                        ));
                    }
                }
                if !seen.insert(x.content.clone()) && canary_author(&x.content).is_some() {
                    return Err(Failure::new(
                        "message-stored-twice",
                        format!("{ctx}: c{who} holds two messages with content {:?}", x.content),
                    ));
                }
            }
        }
        Ok(())
    }
}

impl Observer for AuthorBindingObserver {
    fn wants_before(&self) -> bool {
        true
    }
    fn after_delivery(
        &mut self,
        w: &World,
        who: usize,
        idx: usize,
        before: Option<&Vec<Full>>,
        outcome: &Outcome,
        redelivery: bool,
    ) -> Result<(), Failure> {
        let Some(before_all) = before else { return Ok(()) };
        let ev = &w.relay[idx];
        let after_all = w.full_all(who);
        self.judged += 1;
        let ctx = format!(
            "after event #{idx} ({:?}, {}) by c{} was handed to c{who} (outcome {})",
            ev.class, ev.what, ev.author, outcome.tag()
        );
        if let Some(f) = &ev.forged {
            self.nontrivial += 1;
            let own = w.clients[ev.author].pk_hex();
            self.classes.insert(format!(
                "forged:{}:{}->{}",
                if f.claimed_pubkey == own { "own-pubkey" } else { "foreign-pubkey" },
                match (&f.preset_id, f.collides_with) {
                    (None, _) => "no-id",
                    (Some(_), None) => "random-id",
                    (Some(_), Some(c)) if w.relay[c].author == ev.author => "own-earlier-id",
                    (Some(_), Some(_)) => "id-of-foreign-message",
                },
                outcome.tag()
            ));
        }
        if ev.replay_of.is_some() {
            self.nontrivial += 1;
            self.classes.insert(format!("replay-of-{:?}->{}", ev.class, outcome.tag()));
        }
        if redelivery {
            self.classes.insert("redelivery".into());
        }
        // (3) messages of other authors are untouched by an application-message event
        // (the forging client's own store is not protected against its own forgeries)
        if ev.class == Class::App && !(ev.forged.is_some() && ev.author == who) {
            // the MLS-authenticated producer of the ciphertext (a replay re-wraps someone's ciphertext)
            let mut root = idx;
            while let Some(r) = w.relay[root].replay_of {
                root = r;
            }
            let producer = w.relay[root].author;
            for (gi, (b, a)) in before_all.iter().zip(after_all.iter()).enumerate() {
                for y in &b.msgs_created {
                    let foreign = canary_author(&y.content).map(|x| x != producer).unwrap_or(true);
                    if !foreign {
                        continue;
                    }
                    // the receiver's own forgeries in its own store are not protected
                    if y.content.starts_with("forged-") && canary_author(&y.content) == Some(who) {
                        continue;
                    }
                    match a.msgs_created.iter().find(|x| x.id == y.id) {
                        Some(x) if x == y => {}
                        Some(x) => {
                            return Err(Failure::new(
                                "foreign-message-altered",
                                format!(
                                    "{ctx}: group#{gi} message {} of another author changed: ({}, {:?}, {}) -> ({}, {:?}, {})",
                                    crate::fingerprint::sh(&y.id, 8), crate::fingerprint::sh(&y.pubkey, 8), y.content, y.state, crate::fingerprint::sh(&x.pubkey, 8), x.content, x.state
                                ),
                            ));
                        }
                        None => {
                            return Err(Failure::new(
                                "foreign-message-removed",
                                format!("{ctx}: group#{gi} message {} ({:?}) of another author disappeared", crate::fingerprint::sh(&y.id, 8), y.content),
                            ));
                        }
                    }
                }
            }
        }
        self.check_store(w, who, &after_all, &ctx)
    }
}

// ---------------------------------------------------------------------------------------------
// C03: only members of the sending epoch ever obtain a message's plaintext
// ---------------------------------------------------------------------------------------------

#[derive(Default)]
pub struct ConfidentialityObserver {
    pub judged: u64,
    pub nontrivial: u64,
    pub classes: BTreeSet<String>,
    /// message count per evicted client at the time of eviction
    /// per client: (membership stint the count belongs to, stored messages when that eviction was noticed)
    evicted_counts: BTreeMap<usize, (u32, usize)>,
}

fn root_of(w: &World, mut idx: usize) -> usize {
    while let Some(r) = w.relay[idx].replay_of {
        idx = r;
    }
    idx
}

impl ConfidentialityObserver {
    fn content_index(w: &World) -> BTreeMap<String, usize> {
        let mut m = BTreeMap::new();
        for (i, e) in w.relay.iter().enumerate() {
            if e.class == Class::App && e.replay_of.is_none() {
                if let Some(r) = &e.rumor {
                    m.insert(r.content.clone(), i);
                }
            }
        }
        m
    }

    pub fn check_store(&mut self, w: &World, who: usize, ctx: &str) -> Result<(), Failure> {
        if w.clients[who].mdk.is_none() {
            return Ok(());
        }
        let idx_of = Self::content_index(w);
        let me = w.clients[who].pk_hex();
        for (gi, f) in w.full_all(who).into_iter().enumerate() {
            for x in &f.msgs_created {
                // a main-group message its author also posted into the second group is held there
                // by that group's members, whoever they are in the main group
                if gi > 0 && w.side.as_ref().map(|s| s.crossposted.contains(&x.content)).unwrap_or(false) {
                    continue;
                }
                let Some(&src) = idx_of.get(&x.content) else { continue };
                if w.relay[src].author == who {
                    continue;
                }
                self.judged += 1;
                if !w.relay[src].roster_at_send.contains(&me) {
                    return Err(Failure::new(
                        "plaintext-held-by-a-non-member-of-the-sending-epoch",
                        format!(
                            "{ctx}: c{who} holds message {:?} (state {}) sent by c{} in {} whose member list did not include it",
                            x.content,
                            x.state,
                            w.relay[src].author,
                            w.relay[src].base.as_ref().map(|b| b.short()).unwrap_or_default()
                        ),
                    ));
                }
            }
        }
        Ok(())
    }
}

impl Observer for ConfidentialityObserver {
    fn after_delivery(
        &mut self,
        w: &World,
        who: usize,
        idx: usize,
        _before: Option<&Vec<Full>>,
        outcome: &Outcome,
        _redelivery: bool,
    ) -> Result<(), Failure> {
        let cl = &w.clients[who];
        let me = cl.pk_hex();
        let src = root_of(w, idx);
        let ev = &w.relay[src];
        let member_then = ev.roster_at_send.contains(&me);
        if ev.class == Class::App && !member_then {
            // an observer that was not a member of the sending epoch was offered the event
            self.nontrivial += 1;
            let role = if cl.reached.is_empty() {
                "never-a-member"
            } else if cl.evicted_at.is_some() {
                "ex-member"
            } else {
                "not-yet-or-no-longer-member"
            };
            self.classes.insert(format!("{role}-offered-foreign-epoch-message->{}", outcome.tag()));
            if let Outcome::App(_) = outcome {
                return Err(Failure::new(
                    "plaintext-returned-to-a-non-member-of-the-sending-epoch",
                    format!(
                        "c{who} ({role}) was handed message #{idx} ({}) sent by c{} in {} and process_message returned its content",
                        ev.what,
                        ev.author,
                        ev.base.as_ref().map(|b| b.short()).unwrap_or_default()
                    ),
                ));
            }
        }
        // "removed before that epoch" is judged on MLS rosters: a removal that an admin's call
        // committed must therefore really be in the roster every receiver ends up with
        let dev = &w.relay[idx];
        if matches!(outcome, Outcome::Commit)
            && dev.class == Class::Commit
            && dev.named.rogue.is_none()
            && !dev.named.removed.is_empty()
            && dev.author != who
            // a re-wrapped copy of the receiver's own commit makes it merge whatever commit it has
            // pending, which need not be that one
            && w.relay[src].author != who
            && cl.cur.is_some()
            && cl.applied.last().map(|(a, seq, _)| *a == idx && *seq == w.delivery_seq).unwrap_or(false)
        {
            self.judged += 1;
            if dev.named.removed.len() > 1 {
                self.nontrivial += 1;
                self.classes.insert("removal-of-several-members-applied".into());
            }
            let members = w.local_members(who);
            let still: Vec<&String> = dev.named.removed.iter().filter(|r| members.contains(r)).collect();
            if !still.is_empty() {
                return Err(Failure::new(
                    "removed-member-is-still-in-the-group",
                    format!(
                        "commit #{idx} ({}) by c{} removed {:?}; after applying it c{who} still lists {:?} as member(s): they keep receiving every later epoch's secrets",
                        dev.what,
                        dev.author,
                        dev.named.removed.iter().map(|r| crate::fingerprint::sh(&r, 8)).collect::<Vec<_>>(),
                        still.iter().map(|r| crate::fingerprint::sh(&r, 8)).collect::<Vec<_>>()
                    ),
                ));
            }
        }
        // after its own removal a client stores nothing any more, cannot send, and the group is inactive
        if w.full(who).mls_active == Some(false) && w.group_state(who) == Some(mdk_storage_traits::groups::types::GroupState::Active) {
            return Err(Failure::new(
                "removed-client-not-inactive",
                format!("after event #{idx} c{who}'s MLS state has merged its own removal (the group is no longer active there), yet the stored group record is still Active"),
            ));
        }
        if let Some(at) = cl.evicted_at {
            let n = w.full(who).msgs_created.len();
            // a re-invited client stores messages again (its own too, without any delivery): count
            // from the eviction that ended the current stint
            let e = self.evicted_counts.entry(who).or_insert((cl.stint, n));
            if e.0 != cl.stint {
                *e = (cl.stint, n);
            }
            let base = e.1;
            if cl.cur.is_none() && w.step > at {
                self.classes.insert("event-offered-after-own-removal".into());
                if n > base {
                    return Err(Failure::new(
                        "evicted-client-stored-a-message",
                        format!("c{who} processed its removal at step {at} and stored a message afterwards (event #{idx})"),
                    ));
                }
            } else {
                // re-joined or rolled back into the group: start over
                self.evicted_counts.insert(who, (cl.stint, n));
            }
        }
        Ok(())
    }
}

// ---------------------------------------------------------------------------------------------
// C20: rollback snapshots stay bounded in number and age
// ---------------------------------------------------------------------------------------------

#[derive(Default)]
pub struct SnapshotObserver {
    /// per client: the (epoch, commit id) pairs whose snapshots must exist, oldest first
    model: BTreeMap<usize, Vec<(u64, String)>>,
    seen_applied: BTreeMap<usize, usize>,
    seen_rollbacks: BTreeMap<usize, usize>,
    pub checks: u64,
    pub nontrivial: u64,
    pub classes: BTreeSet<String>,
    pub max_seen: usize,
}

pub fn list_snapshots(w: &World, who: usize) -> Result<Vec<(String, u64)>, String> {
    use mdk_storage_traits::MdkStorageProvider;
    use openmls_traits::OpenMlsProvider;
    crate::on_mdk!(w.clients[who].mdk(), m => m.provider.storage().list_group_snapshots(&w.gid)).map_err(|e| e.to_string())
}

impl SnapshotObserver {
    pub fn check_client(&mut self, w: &World, who: usize, what: &str) -> Result<(), Failure> {
        let cl = &w.clients[who];
        if cl.mdk.is_none() || cl.reached.is_empty() {
            return Ok(());
        }
        let retention = cl.cfg.retention;
        // update the model from what the harness observed since the last check
        let model = self.model.entry(who).or_default();
        let ra = self.seen_rollbacks.entry(who).or_insert(0);
        let aa = self.seen_applied.entry(who).or_insert(0);
        // interleave by order of occurrence: rollbacks of a delivery happen before its apply
        while *ra < cl.rollbacks.len() || *aa < cl.applied.len() {
            let next_rb = cl.rollbacks.get(*ra);
            let next_ap = cl.applied.get(*aa);
            let take_rb = match (next_rb, next_ap) {
                (Some(_), None) => true,
                (None, Some(_)) => false,
                (Some(rb), Some((idx, seq, _))) => {
                    // the rollback belongs to the delivery of its head event; an apply of the same
                    // event comes after it, applies of earlier deliveries come before
                    let head_idx = w.relay.iter().position(|e| e.ev.id == rb.head);
                    if head_idx == Some(*idx) {
                        true
                    } else {
                        // compare by step (coarse) then prefer the apply
                        let _ = seq;
                        false
                    }
                }
                (None, None) => break,
            };
            if take_rb {
                let rb = &cl.rollbacks[*ra];
                let before = model.len();
                model.retain(|(e, _)| *e < rb.target_epoch);
                if model.len() + 1 < before {
                    self.classes.insert("rollback-dropped-a-suffix".into());
                    self.nontrivial += 1;
                }
                *ra += 1;
            } else {
                let (idx, seq, before) = &cl.applied[*aa];
                if *seq != 0 {
                    // applied through process_message: a snapshot of the state before is kept
                    // (after a rollback inside the same call that state is the rollback target)
                    let epoch = cl
                        .rollbacks
                        .iter()
                        .rev()
                        .find(|rb| w.relay.iter().position(|e| e.ev.id == rb.head) == Some(*idx))
                        .map(|rb| rb.target_epoch)
                        .or(before.as_ref().map(|b| b.epoch))
                        .unwrap_or(0);
                    model.push((epoch, w.relay[*idx].ev.id.to_hex()));
                    while model.len() > retention {
                        model.remove(0);
                        self.classes.insert("pruned-by-retention".into());
                        self.nontrivial += 1;
                    }
                }
                *aa += 1;
            }
        }
        let listed = list_snapshots(w, who).map_err(|e| Failure::new("snapshot-listing-failed", format!("c{who}: {e}")))?;
        // start-up prunes by age: with a short time-to-live whatever is gone after a restart was
        // old enough (how old exactly is judged by the timed start-up check at the end)
        if what == "restart" && cl.cfg.ttl < 86_400 {
            let gid_hex = hex::encode(w.gid.as_slice());
            let before = model.len();
            model.retain(|(e, id)| listed.iter().any(|(n, _)| *n == format!("snap_{gid_hex}_{e}_{id}")));
            if model.len() < before {
                self.classes.insert("pruned-by-age-at-start-up".into());
            }
        }
        self.checks += 1;
        self.max_seen = self.max_seen.max(listed.len());
        if listed.len() > retention {
            return Err(Failure::new(
                "more-snapshots-than-retention",
                format!("after {what} at c{who} ({:?}): {} snapshots kept, retention {retention}: {:?}", cl.kind, listed.len(), short_names(&listed)),
            ));
        }
        let gid_hex = hex::encode(w.gid.as_slice());
        // (snapshots the harness itself removed behind the client's back are not expected)
        let gone = w.vanished.get(&who);
        let want: BTreeSet<String> = model
            .iter()
            .map(|(e, id)| format!("snap_{gid_hex}_{e}_{id}"))
            .filter(|n| !gone.map(|g| g.contains(n)).unwrap_or(false))
            .collect();
        let got: BTreeSet<String> = listed.iter().map(|(n, _)| n.clone()).collect();
        if want != got {
            let strip = |s: &BTreeSet<String>| s.iter().map(|n| n.rsplitn(3, '_').take(2).map(|p| p[..p.len().min(8)].to_string()).collect::<Vec<_>>().join("<-")).collect::<Vec<_>>();
            return Err(Failure::new(
                "kept-snapshots-are-not-those-of-the-most-recent-commits",
                format!(
                    "after {what} at c{who} ({:?}, retention {retention}, step {}): kept (commit<-epoch) {:?}, the most recent applied commits on its branch are {:?}",
                    cl.kind,
                    w.step,
                    strip(&got),
                    strip(&want)
                ),
            ));
        }
        Ok(())
    }
}

fn short_names(l: &[(String, u64)]) -> Vec<String> {
    l.iter().map(|(n, t)| format!("{}@{t}", n.rsplitn(3, '_').nth(1).unwrap_or("?"))).collect()
}

impl Observer for SnapshotObserver {
    fn after_call(&mut self, w: &World, who: usize, what: &str) -> Result<(), Failure> {
        self.check_client(w, who, what)
    }
}

// ---------------------------------------------------------------------------------------------
// C06: a refused event has no effect (any event class), no panic
// ---------------------------------------------------------------------------------------------

#[derive(Default)]
pub struct RefusalObserver {
    pub strict: bool,
    pub judged: u64,
    pub nontrivial: u64,
    pub classes: BTreeSet<String>,
    pub excused: Vec<String>,
}

impl Observer for RefusalObserver {
    fn wants_before(&self) -> bool {
        true
    }
    fn after_delivery(
        &mut self,
        w: &World,
        who: usize,
        idx: usize,
        before: Option<&Vec<Full>>,
        outcome: &Outcome,
        _redelivery: bool,
    ) -> Result<(), Failure> {
        let Some(before_all) = before else { return Ok(()) };
        let ev = &w.relay[idx];
        let hostile = ev.named.rogue.as_deref().map(|r| r.starts_with("hostile")).unwrap_or(false);
        if hostile {
            let state = if w.clients[who].cur.is_none() {
                "inactive-or-no-group"
            } else if before_all[0].pending_commit {
                "pending-commit"
            } else if before_all[0].pending_proposal_count > 0 {
                "pending-proposals"
            } else {
                "idle"
            };
            self.classes.insert(format!("{}->{}", ev.named.rogue.clone().unwrap_or_default(), outcome.tag()));
            self.classes.insert(format!("victim-state:{state}"));
        }
        if !outcome.is_failure_class() {
            if hostile
                && std::env::var("VCHECK_DEBUG_ACCEPTED").is_ok()
                && (ev.what.contains("InnerBitFlip") || ev.what.contains("HeaderEpoch") || ev.what.contains("HeaderContentType"))
            {
                return Err(Failure::new("debug-mutant-accepted", format!("#{idx} {} at c{who}: {}", ev.what, outcome.tag())));
            }
            return Ok(());
        }
        self.judged += 1;
        if hostile && ev.what.contains("Inner") || ev.what.contains("Header") || ev.what.contains("Backdated") {
            self.nontrivial += 1;
        }
        let after_all = w.full_all(who);
        if *before_all != after_all {
            let d = before_all
                .iter()
                .zip(after_all.iter())
                .map(|(b, a)| diff_full(b, a))
                .filter(|s| !s.is_empty())
                .collect::<Vec<_>>()
                .join(" | ");
            let detail = format!(
                "event #{idx} ({:?}, {}) handed to c{who} at step {} was refused ({}{}), yet the client changed: {d}",
                ev.class,
                ev.what,
                w.step,
                outcome.tag(),
                match outcome {
                    Outcome::Err(e) => format!(": {e}"),
                    _ => String::new(),
                }
            );
            if rollback_fired_now(w, who, idx) {
                if self.strict {
                    return Err(Failure::new("refused-event-rolled-the-group-back", detail));
                }
                self.excused.push("O15-rollback-before-validation".into());
                return Ok(());
            }
            return Err(Failure::new("refused-event-had-an-effect", detail));
        }
        Ok(())
    }
}
