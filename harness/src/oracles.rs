//! Oracles over a finished world (after quiescence and the reference chain walk).

use std::collections::{BTreeMap, BTreeSet};

use crate::fingerprint::StateKey;
use crate::runner::{CaseReport, Mode};
use crate::world::{ChainState, Class, Failure, Outcome, Regime, World};

pub struct Excuse {
    pub key: &'static str,
    pub detail: String,
}

fn chain_index(chain: &[ChainState], k: &StateKey) -> Option<usize> {
    chain.iter().position(|c| &c.key == k)
}

/// Why may client `m` legitimately (i.e. by a *listed* finding or a stated limit of the
/// property) not have applied chain commit `c`?
fn excuse_for_commit(w: &World, m: usize, c: usize) -> Option<Excuse> {
    let cl = &w.clients[m];
    let ev = &w.relay[c];
    let rec = cl.delivered.get(&c)?;
    if !rec.first_reached_base {
        return Some(Excuse {
            key: "O2-premature-delivery-is-final",
            detail: format!(
                "commit #{c} was first handed to c{m} at step {} before it had reached the commit's base state; it was recorded as failed for good",
                rec.first_step
            ),
        });
    }
    for d in &ev.deps {
        let dep_first = cl.delivered.get(d).map(|r| r.first_step);
        if dep_first.map(|s| s > rec.first_step).unwrap_or(true) {
            return Some(Excuse {
                key: "O2-premature-delivery-is-final",
                detail: format!(
                    "commit #{c} was first handed to c{m} before proposal #{d}, which it references; it was recorded as failed for good"
                ),
            });
        }
        match cl.delivered.get(d) {
            Some(dr) if !dr.first_at_base => {
                return Some(Excuse {
                    key: "O2b-proposal-outside-its-epoch-is-final",
                    detail: format!(
                        "proposal #{d} referenced by commit #{c} was first handed to c{m} while it was not in the proposal's epoch state; it was recorded as failed for good"
                    ),
                });
            }
            _ => {}
        }
    }
    if !rec.first_at_base && !rec.first_routed {
        return Some(Excuse {
            key: "O23-losing-commit-rotated-the-nostr-group-id",
            detail: format!(
                "when commit #{c} was first handed to c{m} the client had applied a competing commit that rotated the Nostr group id, so the event (tagged with the id of its own epoch) was not routed to the group"
            ),
        });
    }
    if !rec.first_at_base {
        // the commit arrived after the client had moved on from the base state: a rollback
        // was needed
        let base_epoch = ev.base.as_ref().map(|b| b.epoch).unwrap_or(0);
        // O6: the client applied its own commit for the base epoch with merge_pending_commit
        for &own in &cl.immediate {
            // an immediately merged own commit on the same base leaves no snapshot for it
            if w.relay[own].base == ev.base {
                return Some(Excuse {
                    key: "O6-immediate-merge-has-no-snapshot",
                    detail: format!(
                        "c{m} applied its own commit #{own} with merge_pending_commit (no snapshot is taken), so the better commit #{c} could not be adopted"
                    ),
                });
            }
        }
        // O8: a restart between applying the losing commit and receiving the better one
        if let Some(b) = &ev.base {
            if let Some(&entered) = cl.entered_at.get(b) {
                if cl
                    .restarts
                    .iter()
                    .any(|&r| r > entered && r <= rec.first_step)
                {
                    return Some(Excuse {
                        key: "O8-restart-forgets-commit-timestamps",
                        detail: format!(
                            "c{m} restarted between leaving the base state of #{c} and receiving it; hydrated snapshots carry no timestamp"
                        ),
                    });
                }
            }
        }
        // depth beyond retention: not asserted by the property
        if let Some(fs) = &rec.first_state {
            let depth = fs.epoch.saturating_sub(base_epoch);
            if depth as usize > cl.cfg.retention {
                return Some(Excuse {
                    key: "limit-fork-deeper-than-retention",
                    detail: format!("rollback distance {depth} exceeds retention {}", cl.cfg.retention),
                });
            }
        }
        if cl.cfg.retention == 0 {
            return Some(Excuse {
                key: "limit-fork-deeper-than-retention",
                detail: "retention 0".into(),
            });
        }
    }
    None
}

pub struct Convergence {
    pub agreed: usize,
    pub skipped: BTreeMap<String, u64>,
    pub excused: Vec<String>,
}

/// C01 (a)+(b)+(c): agreement on the reference state, rollback discipline, prefix safety.
pub fn check_convergence(
    w: &World,
    chain: &[ChainState],
    mode: Mode,
) -> Result<Convergence, Failure> {
    let last = chain.last().expect("chain has the initial state");
    let final_roster = last.roster();
    let chain_keys: BTreeSet<StateKey> = chain.iter().map(|c| c.key.clone()).collect();
    let mut conv = Convergence {
        agreed: 0,
        skipped: BTreeMap::new(),
        excused: vec![],
    };
    let mut skip = |conv: &mut Convergence, k: &str| {
        *conv.skipped.entry(k.to_string()).or_insert(0) += 1;
    };

    // (b) rollback discipline
    for &m in &w.actors() {
        let cl = &w.clients[m];
        for rb in &cl.rollbacks {
            let Some(before) = &rb.state_before else { continue };
            let Some(j) = chain_index(chain, before) else { continue };
            // the abandoned states chain[t+1..=j] are all chain states
            let t = chain.iter().position(|c| c.key.epoch == rb.target_epoch);
            if let Some(t) = t {
                if t < j {
                    let head = w
                        .relay
                        .iter()
                        .position(|e| e.ev.id == rb.head)
                        .map(|i| format!("#{i} ({:?}, {})", w.relay[i].class, w.relay[i].what))
                        .unwrap_or_else(|| rb.head.to_hex());
                    return Err(Failure::new(
                        "rollback-away-from-selected-chain",
                        format!(
                            "c{m} was in the MIP-03 selected state {} and rolled back to epoch {} because of event {head} (step {}, outcome {})",
                            before.short(),
                            rb.target_epoch,
                            rb.step,
                            rb.outcome.tag()
                        ),
                    ));
                }
            }
        }
    }

    for &m in &w.actors() {
        let cl = &w.clients[m];
        if cl.mdk.is_none() {
            continue;
        }
        let pk = cl.pk_hex();
        if cl.reached.is_empty() {
            skip(&mut conv, "never-joined");
            continue;
        }
        if !final_roster.contains(&pk) {
            skip(&mut conv, "not-in-final-roster");
            continue;
        }
        if !cl.reached.iter().any(|k| chain_keys.contains(k)) {
            skip(&mut conv, "joined-through-losing-commit");
            continue;
        }
        let lvl = w
            .level(m)
            .map_err(|e| Failure::new("state-unreadable", format!("c{m}: {e}")))?;
        if lvl.as_ref() == Some(&last.level) {
            conv.agreed += 1;
            continue;
        }
        // diverged or stalled
        let here = cl.cur.as_ref().and_then(|k| chain_index(chain, k));
        if let (Some(i), Some(l)) = (here, &lvl) {
            if *l != chain[i].level {
                return Err(Failure::new(
                    "state-differs-from-reference-at-same-epoch",
                    format!(
                        "c{m} has the MLS state of chain index {i} ({}) but its observable group differs from the reference replica's: {}",
                        chain[i].key.short(),
                        diff_levels(l, &chain[i].level)
                    ),
                ));
            }
        }
        // fork point: the furthest chain state this client has ever been in
        let i = chain
            .iter()
            .rposition(|c| cl.reached.contains(&c.key))
            .expect("intersection checked above");
        let describe = |w: &World| {
            format!(
                "c{m} ({:?}, admin={}) ends at {} (group state {:?}); reference chain: {}; furthest chain state reached: index {i}",
                cl.kind,
                w.is_admin_locally(m),
                cl.cur.as_ref().map(|k| k.short()).unwrap_or("-".into()),
                w.group_state(m),
                chain.iter().map(|c| c.key.short()).collect::<Vec<_>>().join(" -> "),
            )
        };
        if i + 1 >= chain.len() {
            return Err(Failure::new(
                "left-the-selected-final-state",
                format!("{}; it had reached the final state and is no longer in it", describe(w)),
            ));
        }
        let next = chain[i + 1].commit.expect("non-initial chain state has a commit");
        let mut excuse = excuse_for_commit(w, m, next);
        if excuse.is_none() && here.is_none() {
            if let Some(x) = cl.evicted_by {
                if !chain.iter().any(|c| c.commit == Some(x)) {
                    excuse = Some(Excuse {
                        key: "O22-eviction-by-losing-commit-is-final",
                        detail: format!(
                            "c{m} was removed by commit #{x}, which is not on the selected chain; an evicted client refuses every later event, so it can never adopt the winner"
                        ),
                    });
                }
            }
        }
        if excuse.is_none() && here.is_none() {
            // O9: its own commit swept foreign proposals although it is not an admin
            for (own, _, _) in &cl.applied {
                let e = &w.relay[*own];
                if e.author == m
                    && !e.deps.is_empty()
                    && !e.auto_commit
                    && !chain.iter().any(|c| c.commit == Some(*own))
                    && e.what == "self_update"
                {
                    excuse = Some(Excuse {
                        key: "O9-commit-sweeps-foreign-pending-proposals",
                        detail: format!(
                            "c{m}'s self_update #{own} swept pending proposals {:?} of other members, so everyone else refused it while c{m} applied it",
                            e.deps
                        ),
                    });
                }
            }
        }
        if excuse.is_none() && here.is_none() {
            // on a dead branch of its own making?
            for &own in &cl.immediate {
                if !chain.iter().any(|c| c.commit == Some(own)) {
                    excuse = Some(Excuse {
                        key: "O6-immediate-merge-has-no-snapshot",
                        detail: format!(
                            "c{m} applied its own commit #{own} with merge_pending_commit and that commit lost"
                        ),
                    });
                    break;
                }
            }
        }
        match (excuse, mode) {
            (Some(e), Mode::Normal) => {
                conv.excused.push(e.key.to_string());
            }
            (Some(e), Mode::Strict) => {
                return Err(Failure::new(
                    &format!("diverged:{}", e.key),
                    format!("{}; {}", describe(w), e.detail),
                ));
            }
            (None, _) => {
                let rec = cl.delivered.get(&next);
                return Err(Failure::new(
                    if here.is_some() {
                        "stalled-behind-selected-commit"
                    } else {
                        "diverged-from-selected-chain"
                    },
                    format!(
                        "{}; next selected commit is #{next} ({}), handed to it {} time(s), first outcome {:?}, last outcome {:?}, first at step {:?} in state {:?}",
                        describe(w),
                        w.relay[next].what,
                        rec.map(|r| r.count).unwrap_or(0),
                        rec.map(|r| r.first_outcome.clone()),
                        rec.map(|r| r.last_outcome.clone()),
                        rec.map(|r| r.first_step),
                        rec.and_then(|r| r.first_state.as_ref().map(|s| s.short())),
                    ),
                ));
            }
        }
    }
    Ok(conv)
}

pub fn diff_levels(a: &crate::fingerprint::GroupLevel, b: &crate::fingerprint::GroupLevel) -> String {
    let mut out = vec![];
    if a.epoch != b.epoch {
        out.push(format!("epoch {} vs {}", a.epoch, b.epoch));
    }
    if a.auth != b.auth {
        out.push("epoch authenticator differs".to_string());
    }
    if a.members != b.members {
        out.push(format!("members {:?} vs {:?}", a.members, b.members));
    }
    if a.ext != b.ext {
        out.push(format!("extension {:?} vs {:?}", a.ext, b.ext));
    }
    if a.relays != b.relays {
        out.push(format!("relays {:?} vs {:?}", a.relays, b.relays));
    }
    if a.record != b.record {
        out.push(format!("record {:?} vs {:?}", a.record, b.record));
    }
    out.join("; ")
}

/// Classification of a finished world for the evidence file.
pub fn classify(w: &World, chain: &[ChainState], rep: &mut CaseReport) {
    let mut by_base: BTreeMap<StateKey, Vec<usize>> = BTreeMap::new();
    for (i, e) in w.relay.iter().enumerate() {
        if e.class == Class::Commit {
            if let Some(b) = &e.base {
                by_base.entry(b.clone()).or_default().push(i);
            }
        }
    }
    let mut max_width = 0;
    let mut tie = false;
    for v in by_base.values() {
        max_width = max_width.max(v.len());
        for a in 0..v.len() {
            for b in (a + 1)..v.len() {
                if w.relay[v[a]].ev.created_at == w.relay[v[b]].ev.created_at {
                    tie = true;
                }
            }
        }
    }
    let mut nontrivial = false;
    if max_width >= 2 {
        rep.classes.push(format!("fork-width-{}", max_width.min(4)));
        nontrivial = true;
    }
    if tie {
        rep.classes.push("timestamp-tie".into());
    }
    let mut rollbacks = 0;
    let mut max_depth = 0;
    let mut late_commit = false;
    for &m in &w.actors() {
        let cl = &w.clients[m];
        rollbacks += cl.rollbacks.len();
        for rb in &cl.rollbacks {
            if let Some(b) = &rb.state_before {
                max_depth = max_depth.max(b.epoch.saturating_sub(rb.target_epoch));
            }
            // role of the client that rolled back
            let head = w.relay.iter().position(|e| e.ev.id == rb.head);
            let role = if cl.own_pending.is_some() {
                "pending-committer"
            } else if head.map(|h| w.relay[h].author == m).unwrap_or(false) {
                "winning-committer"
            } else if cl.applied.iter().any(|(idx, _, _)| w.relay[*idx].author == m) {
                "losing-committer"
            } else {
                "bystander"
            };
            rep.classes.push(format!("rollback-by-{role}"));
        }
        for (idx, d) in &cl.delivered {
            if w.relay[*idx].class == Class::Commit && !d.first_at_base && w.relay[*idx].author != m {
                late_commit = true;
            }
        }
    }
    if rollbacks > 0 {
        rep.classes.push("rollback".into());
        rep.classes.push(format!("rollback-depth-{}", max_depth.min(5)));
        nontrivial = true;
    }
    if late_commit {
        rep.classes.push("commit-offered-outside-its-base-state".into());
        nontrivial = true;
    }
    rep.classes.push(format!("chain-length-{}", (chain.len() - 1).min(8)));
    rep.classes.push(match w.regime {
        Regime::Causal => "regime-causal".into(),
        Regime::Unrestricted => "regime-unrestricted".into(),
    });
    let kinds: BTreeSet<_> = w
        .actors()
        .iter()
        .filter(|&&i| !w.clients[i].reached.is_empty())
        .map(|&i| format!("{:?}", w.clients[i].kind))
        .collect();
    rep.classes.push(format!("backends-{}", kinds.into_iter().collect::<Vec<_>>().join("+")));
    if w.actors().iter().any(|&i| !w.clients[i].immediate.is_empty()) {
        rep.classes.push("apply-immediate".into());
    }
    if w.relay.iter().any(|e| e.auto_commit) {
        rep.classes.push("leave-auto-commit".into());
    }
    rep.nontrivial = nontrivial;
    for (k, v) in &w.counters {
        *rep.counters.entry(k.clone()).or_insert(0) += v;
    }
    let _ = Outcome::Commit;
}
