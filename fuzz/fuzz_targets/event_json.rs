#![no_main]
//! JSON-level fuzzing of the three event entry points on a fresh client with one group:
//! process_message (kind 445), parse_key_package (kind 443) and process_welcome (rumor).
//! Oracle: no panic, and a refused event leaves the group's record untouched.
use libfuzzer_sys::fuzz_target;
use mdk_core::MDK;
use mdk_core::groups::NostrGroupConfigData;
use mdk_memory_storage::MdkMemoryStorage;
use nostr::{Event, EventId, JsonUtil, Keys, RelayUrl, UnsignedEvent};

fuzz_target!(|data: &[u8]| {
    let Ok(text) = std::str::from_utf8(data) else { return };
    // state is rebuilt for every input: nothing leaks between iterations
    let mdk = MDK::new(MdkMemoryStorage::default());
    let keys = Keys::new(nostr::SecretKey::from_slice(&[7u8; 32]).unwrap());
    let pk = keys.public_key();
    let cfg = NostrGroupConfigData::new("fuzz".into(), "d".into(), None, None, None, vec![RelayUrl::parse("wss://f.example.org").unwrap()], vec![pk]);
    let g = mdk.create_group(&pk, vec![], cfg).expect("create_group");
    let gid = g.group.mls_group_id.clone();
    let before = mdk.get_group(&gid).unwrap();
    if let Ok(ev) = Event::from_json(text) {
        let r = mdk.process_message(&ev);
        if r.is_err() {
            assert_eq!(before, mdk.get_group(&gid).unwrap(), "refused message changed the group record");
            assert!(mdk.get_messages(&gid, None).unwrap().is_empty(), "refused message stored something");
        }
        let _ = mdk.parse_key_package(&ev);
        let _ = mdk.add_members(&gid, std::slice::from_ref(&ev)).map(|_| mdk.clear_pending_commit(&gid));
    }
    if let Ok(rumor) = UnsignedEvent::from_json(text) {
        let r = mdk.process_welcome(&EventId::all_zeros(), &rumor);
        if r.is_err() {
            assert_eq!(before, mdk.get_group(&gid).unwrap(), "refused welcome changed the group record");
            assert_eq!(mdk.get_groups().unwrap().len(), 1, "refused welcome created a group");
        }
    }
});
