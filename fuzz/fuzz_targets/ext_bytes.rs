#![no_main]
//! Byte-level fuzzing of the group-data extension parser with the oracle inside the target:
//! no panic, and whatever parses must re-encode to bytes that parse to the same value
//! (decode . encode = id on everything the parser accepts).
use libfuzzer_sys::fuzz_target;
use mdk_core::extension::NostrGroupDataExtension;

fuzz_target!(|data: &[u8]| {
    if let Ok(v) = NostrGroupDataExtension::verif_from_tls_bytes(data) {
        let bytes = v.verif_to_tls_bytes().expect("an accepted value must serialise");
        let again = NostrGroupDataExtension::verif_from_tls_bytes(&bytes).expect("own encoding must parse");
        // Relay URLs are compared by their text: `nostr::RelayUrl` equality looks at the inner
        // `Url`, and two values that print the same can differ there (the url crate strips
        // trailing control characters, which leaves a path ending in '/' that `RelayUrl` then
        // prints without it). That is outside mdk's codec; everything else must be equal.
        let texts = |e: &NostrGroupDataExtension| e.relays.iter().map(|r| r.to_string()).collect::<Vec<_>>();
        assert_eq!(texts(&v), texts(&again), "decode(encode(v)) changed the relay list");
        let (mut a, mut b) = (v.clone(), again.clone());
        a.relays.clear();
        b.relays.clear();
        assert_eq!(a, b, "decode(encode(v)) != v");
        // and the encoding itself is a fixed point
        assert_eq!(bytes, again.verif_to_tls_bytes().expect("serialise"), "encode(decode(encode(v))) != encode(v)");
        // nothing ambiguous: no accepted input may carry bytes the value does not account for
        assert!(data.len() >= 34, "accepted fewer bytes than the fixed header");
        // an accepted encoding with optional image fields present must have had exact lengths
        if let Some(h) = v.image_hash { assert_eq!(h.len(), 32); }
        assert_ne!(v.version, 0, "version 0 accepted");
    }
});
