#!/usr/bin/env python3
"""Re-derives the witness plan of every open finding of the given properties by a strict-mode search
restricted to the finding's clause (used after the plan interpreter changed)."""
import json, os, subprocess, sys, glob, shutil
root='/verif'
kf=json.load(open(f'{root}/known_findings.json'))
props=sys.argv[1:]
for f in kf['findings']:
    if f['status']!='open' or (props and f['property'] not in props): continue
    P, clause = f['property'], f['clause']
    best=None
    for seed in (71,72,73,74,75,76):
        shutil.rmtree(f'{root}/replays/{P}', ignore_errors=True)
        subprocess.run([f'{root}/check', P, 'quick', '--cases', '4000', '--strict', '--only', clause, '--seed', str(seed)], stdout=subprocess.DEVNULL, stderr=subprocess.DEVNULL, env=dict(os.environ, VCHECK_NO_FUZZ='1'))
        for r in glob.glob(f'{root}/replays/{P}/*.json'):
            j=json.load(open(r))
            if j['clause']!=clause or j.get('shrunk_reproduced_of_3',0)<3: continue
            size=len(json.dumps(j['case']))
            if best is None or size<best[0]: best=(size,j)
        if best and best[0]<2500: break
    if best:
        f['witness']=best[1]['case']; f['witness_detail']=best[1].get('detail','')
        print(P, f['key'], 'witness re-derived, size', best[0])
    else:
        print(P, f['key'], 'NO reliable witness found')
    shutil.rmtree(f'{root}/replays/{P}', ignore_errors=True)
json.dump(kf, open(f'{root}/known_findings.json','w'), indent=1)
