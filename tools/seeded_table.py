#!/usr/bin/env python3
"""Regenerate the table of seeded changes in DESIGN.md (§8.5) from seeded/*/meta.json."""
import json, glob, os, re
rows = []
for p in sorted(glob.glob('/verif/seeded/*/meta.json')):
    sid = os.path.basename(os.path.dirname(p))
    m = json.load(open(p))
    c = m.get('checks', {})
    files = ', '.join(os.path.basename(f) for f in m.get('files', []))
    what = m.get('short') or m['summary'].split('. ')[0][:230]
    needs = m.get('needs_short') or m['needs'].split('. ')[0][:200]
    caught = '; '.join(f"**{k}**: {v[:160]}" for k, v in c.get('caught_by', {}).items()) or '—'
    missed = '; '.join(c.get('missed_by', [])) or '—'
    rows.append(f"| {sid} | {m['property']} | {files}: {what} | {needs} | {caught} | {missed} |")
table = "| change | aimed at | what it does | needs | caught by | not caught by |\n|---|---|---|---|---|---|\n" + "\n".join(rows)
block = "<!-- seeded-table:begin -->\n" + table + "\n<!-- seeded-table:end -->"
s = open('/verif/DESIGN.md').read()
if 'SEEDED_TABLE' in s:
    s = s.replace('SEEDED_TABLE', block)
else:
    s = re.sub(r"<!-- seeded-table:begin -->.*?<!-- seeded-table:end -->", lambda _: block, s, flags=re.S)
open('/verif/DESIGN.md', 'w').write(s)
print(len(rows), "rows")
