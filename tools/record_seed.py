#!/usr/bin/env python3
"""record_seed.py <seeded id> <demo cmd> <outcome json>  — add my own confirmation and check results to seeded/<id>/meta.json"""
import json, sys
sid, demo_cmd, outcome = sys.argv[1], sys.argv[2], json.loads(sys.argv[3])
p = f"/verif/seeded/{sid}/meta.json"
m = json.load(open(p))
m["confirmed_by_me"] = {
    "how": f"tools/confirm_seed.sh {sid} <scratch worktree> {demo_cmd}: in the scratch worktree, demo.patch on the unchanged tree -> demonstration passes; "
           "with patch.diff applied -> demonstration fails; demonstration removed, patch applied -> `cargo test --workspace --no-fail-fast --offline` "
           "834 passed, 0 failed",
    "demo_cmd": demo_cmd,
}
m["checks"] = outcome
json.dump(m, open(p, "w"), indent=1)
