#!/usr/bin/env python3
"""For each (fix commit, property, clause, out): revert the fix in /repo's working tree, search the clause,
store the smallest reliably reproducing plan as regression plan, restore /repo."""
import json, os, subprocess, sys, glob, shutil
root='/verif'
JOBS=[
 ("2b53253","C01","rollback-away-from-selected-chain","O1-stale-proposal-rolls-back.json"),
 ("ac36be6","C02","winning-branch-message-not-valid-exactly-once","O3-sqlite-rollback-deletes-messages.json"),
 ("8743a06","C04","stored-id-is-not-the-hash-of-stored-fields","O5-preset-rumor-id-is-trusted.json"),
 ("8743a06","C04","foreign-message-altered","O5-colliding-id-overwrites-foreign-message.json"),
 ("a439b24","C05","rejected-event-changed-the-group","O27-leave-at-admin-that-cannot-auto-commit.json"),
 ("b5236ba","C16","invitation-disturbed-an-active-group","O10-invitation-overwrites-active-group.json"),
 ("ac36be6","C09","sqlite-state-differs-from-contract","O3-sqlite-rollback-deletes-messages.json"),
]
sel=sys.argv[1:]
for commit,P,clause,out in JOBS:
    if sel and P not in sel: continue
    assert subprocess.run(['git','-C','/repo','status','--porcelain'],capture_output=True,text=True).stdout.strip()=='' , "/repo not clean"
    r=subprocess.run(['git','-C','/repo','revert','--no-commit',commit],capture_output=True,text=True)
    if r.returncode!=0:
        print(P,out,'revert failed:',r.stderr[:200]); subprocess.run(['git','-C','/repo','revert','--abort']); subprocess.run(['git','-C','/repo','reset','--hard','-q','HEAD']); continue
    best=None
    try:
        for seed in (91,92,93):
            shutil.rmtree(f'{root}/replays/{P}', ignore_errors=True)
            subprocess.run([f'{root}/check', P, 'quick', '--cases', '3000', '--only', clause, '--seed', str(seed)], stdout=subprocess.DEVNULL, stderr=subprocess.DEVNULL, env=dict(os.environ, VCHECK_NO_FUZZ='1'))
            for rp in glob.glob(f'{root}/replays/{P}/*.json'):
                j=json.load(open(rp))
                if j['clause']!=clause or j.get('shrunk_reproduced_of_3',0)<3: continue
                size=len(json.dumps(j['case']))
                if best is None or size<best[0]: best=(size,j)
            if best: break
    finally:
        subprocess.run(['git','-C','/repo','reset','--hard','-q','HEAD'])
        shutil.rmtree(f'{root}/replays/{P}', ignore_errors=True)
    if best:
        j=best[1]; j.pop('original_case',None); j['reverted_fix_commit']=commit
        os.makedirs(f'{root}/regress/{P}',exist_ok=True)
        json.dump(j,open(f'{root}/regress/{P}/{out}','w'),indent=1)
        print(P,out,'regression plan derived on the tree without',commit,'size',best[0])
    else:
        print(P,out,'NOT found')
