#!/usr/bin/env python3
"""Regenerates /verif/MANIFEST.json from the table below (one entry per claimed property)."""
import json, os, subprocess
root = os.path.dirname(os.path.dirname(os.path.abspath(__file__)))

def hook_commits():
    try:
        out = subprocess.check_output(["git", "-C", "/repo", "log", "--format=%h %s"], text=True)
        return [l.split()[0] for l in out.splitlines() if l.split(" ", 1)[1].startswith("verif-hooks")][::-1]
    except Exception:
        return []

CHECKS = {
 "C01": dict(engine="E1-world", category="exploration", technique="stateful property-based testing (proptest plans of member actions and deliveries) against a reference replica that walks the MIP-03 chain",
   text="Generated histories of member actions and per-member delivery schedules (causal and unrestricted, duplicates, both own-commit modes, both backends, retention 1..6) are executed on the real crates; after re-offering everything to a fixed point every member that is in the selected final roster must have exactly the reference replica's group state, must never have rolled back away from a selected state, and a member that stalls must sit exactly on a selected state for a reason listed in known_findings.json. Search, not proof.",
   note="Trusted: the harness's reference replica (an extra silent member of the real library) as the definition of the MIP-03 selection; bounded group size, plan length and fork depth; random event ids decide timestamp ties.", ref="DESIGN.md §4 C01"),
 "C02": dict(engine="E1-world", category="exploration", technique="stateful property-based testing; per (message, receiver) oracle against the sender's rumor and the reference chain",
   text="C01-style generated histories enriched with application messages; after quiescence every message created in a selected state must be held exactly once, field-for-field equal to the sender's rumor and in state processed, by every converged client that was a member in that state; messages created on a losing branch must be absent or invalidated at converged clients. Search, not proof.",
   note="Only clients agreeing with the reference's final state are judged; deliveries beyond max_past_epochs are don't-care; excuses are limited to the signatures in known_findings.json (O2, O4, O23).", ref="DESIGN.md §4 C02"),
 "C07": dict(engine="E1-world", category="exploration", technique="stateful property-based testing; metamorphic relation: re-delivery = identity on the full client fingerprint",
   text="Generated histories with explicit re-deliveries (and the re-offering of all events at quiescence): whenever an event whose earlier hand-over took effect at a client is handed over again, the client's full fingerprint (group state, pending proposals/commit, every stored message and its state, last-message pointer) must be identical before and after. Search, not proof.",
   note="'took effect' = an earlier hand-over returned an application message, commit, pending proposal or auto-commit; internal dedup records are not observable and not compared.", ref="DESIGN.md §4 C07"),
 "C08": dict(engine="E1-world", category="exploration", technique="stateful property-based testing with an invariant checked after every API call",
   text="Generated histories rich in group-data updates, id rotations, merges/clears, races, rollbacks and restarts; after every API call the acting client's stored record (epoch, name, description, admins, image fields, Nostr group id) and relay set must equal what its MLS state says; all clients are swept at the end. Search, not proof.",
   note="Only Active groups; routing of events under the id currently in force is exercised by the same histories (messages and commits after rotations must be processed), cross-group routing is not yet generated.", ref="DESIGN.md §4 C08"),
 "C09": dict(engine="E2-storemodel", category="exploration", technique="model-based property testing: generated storage-call sequences, three-way differential (contract model / memory / SQLite) with full-store dumps",
   text="Generated sequences of storage writes interleaved with snapshot create / rollback / release / prune (nested, out of order, re-taken and unknown names, 1..3 groups) run on both real backends and on a plain reference model; after every step a dump of every read the contract offers (groups, relays, exporter secrets, messages in both orders, processed records, welcomes, snapshot names, all OpenMLS group data kinds, proposals, own leaf nodes, epoch key pairs, key packages, PSKs, signature and encryption keys) must equal the model's: the slice restored, the snapshot consumed, everything else untouched. Search, not proof.",
   note="OpenMLS tables are driven through the real StorageProvider<1> trait with harness-defined blob entities keyed by the real openmls GroupId; snapshots only of existing groups; unordered results compared as sets.", ref="DESIGN.md §4 C09"),
 "C10": dict(engine="E2-storemodel", category="exploration", technique="model-based property testing: three-way differential (contract model / memory / SQLite) over generated storage-call sequences",
   text="Generated sequences over every storage-trait API with small key pools (overwrites, ties on both timestamps, ids reused across groups, a never-created group, boundary pagination values) run on the memory backend, the SQLite backend and a reference model written from the trait documentation; every call result (Ok value or Err-ness) and a full dump after every step must agree three-way. Search, not proof.",
   note="Values stay inside both backends' documented limits; error wording ignored; the model is the harness's reading of the trait docs.", ref="DESIGN.md §4 C10"),
 "C18": dict(engine="E2-storemodel + E1-world", category="exploration", technique="property-based testing: ordering/pagination laws on both backends plus a stateful invariant (last-message pointer) over generated histories",
   text="(a) message sets with colliding timestamps on both backends: documented total order, repeatable listings, pages of size 1..3 partition the listing, out-of-range limits refused, last_message = head, agreement with the model for all (limit, offset, sort) incl. 0, MAX, MAX+1, usize::MAX; (b) message-rich generated histories with the group's cached last-message pointer compared, after every API call, to the head of the default order among non-invalidated messages. Search, not proof.",
   note="processed_at is wall-clock with one-second granularity, so ties on it dominate; (b) judges Active groups only.", ref="DESIGN.md §4 C18"),
 "C04": dict(engine="E1-world + rogue toolkit", category="exploration", technique="stateful property-based testing with adversarial generators (forged rumor fields, colliding ids, replayed ciphertexts) and a per-delivery store invariant",
   text="Message-rich generated histories in which members also send rumors with a chosen pubkey and a chosen pre-set id (incl. the id of another member's stored message) and re-wrap captured MLS ciphertexts in fresh wrappers. After every delivery at every receiver: attribution = the client that really produced the content canary, id = NIP-01 hash of the stored fields, other authors' stored messages bit-for-bit unchanged, no canary stored twice. Search, not proof.",
   note="What a forging client keeps in its own store about its own forgeries is not judged; a second group on the same client (cross-group h tag) is exercised in C06.", ref="DESIGN.md §4 C04"),
 "C05": dict(engine="E1-world + rogue toolkit", category="exploration", technique="stateful property-based testing with adversarial commit/proposal generators built directly on OpenMLS, judged by before/after fingerprints against what each event names",
   text="Generated histories mix honest operations with commits and proposals built directly with OpenMLS by admins, non-admins and members that have not yet seen their own removal (add, remove, extension rename, self-promotion, path update, path update with a foreign identity, remove+update, by-reference commit, empty commit; remove/add/extension/update proposals). Every delivery is judged at the receiver: a refused event changes nothing, a proposal changes only the queue, only a self-leave may be auto-committed, a non-admin's accepted commit changes neither roster nor data, an admin's commit changes exactly what the call named, no identity moves at a surviving leaf. Search, not proof.",
   note="Outsiders without any group state cannot build MLS messages (their junk is C06's subject); PSK proposals are not constructible in this setup.", ref="DESIGN.md §4 C05"),
 "C16": dict(engine="E1 (dedicated invitation world) + rogue toolkit", category="exploration", technique="stateful property-based testing of invitation histories (valid, replayed under new wrapper ids, outsider-built for held group ids / with foreign group data, malformed) with per-call invariants",
   text="Generated histories over one recipient (memory or SQLite, optionally already in a second group): the admin's valid invitations, outsider-built invitations for a fresh MLS group id or the id of a group the recipient holds, carrying fresh or foreign Nostr group ids, eight kinds of malformed copies; each processed under up to three wrapper ids, repeatedly, accepted / declined / unanswered, interleaved with peer messages, removal, re-invitation and restarts. After every call: same wrapper => same welcome, nothing changes; same rumor under a new wrapper => stored welcome unchanged, nothing created; failed / declined / unanswered => no Active group; accept => inviter's post-commit state, Active, self-update Required and listed; groups Active before are identical after and still store a fresh peer message. Search, not proof.",
   note="Accepting an outsider's invitation for a group held Active is a listed finding (O29) and excluded from generation; the gift-wrap layer is outside mdk (wrapper ids are harness-chosen).", ref="DESIGN.md §4 C16"),
 "C03": dict(engine="E1-world", category="exploration", technique="stateful property-based testing with content canaries; every observer (outsider, ex-member, late joiner) is offered every event",
   text="Generated histories of adds, removals, leaves, self-updates, id rotations, races and replays with frequent messages; every client - never-invited outsiders, ex-members that keep their whole local state incl. past exporter secrets, late joiners - is offered every wrapper event forward and reversed until nothing changes. A message's content may be returned or stored only at a client whose identity was in the sender's member list when the message was created; after processing its own removal a client holds the group Inactive, cannot send and stores nothing more. Search, not proof.",
   note="Confidentiality against an attacker with modified code is MLS's job; this check exercises what the library itself stores and returns. Membership of the sending epoch = the sender's member list at creation time.", ref="DESIGN.md §4 C03"),
 "C11": dict(engine="E1-world (all SQLite)", category="exploration", technique="stateful property-based testing with generated restart positions; differential against a never-restarted twin opened on a copy of the database",
   text="C01/C02-style histories on SQLite with restarts at arbitrary positions. (1) every restart leaves the API-visible fingerprint and pending welcomes identical; (2) a passive member is mirrored by a twin on a copy of its database that never restarts: fingerprints equal after every delivery; (3) restarted members converge and hold the winning branch's messages as C01/C02 demand. Search, not proof.",
   note="Clean shutdown only; wall-clock fields are erased before comparing; the loss of rollback ability after a restart is listed finding O8.", ref="DESIGN.md §4 C11"),
 "C20": dict(engine="E1-world", category="exploration", technique="stateful property-based testing with a reference model of the snapshot queue checked after every API call",
   text="Commit-heavy generated histories (warm-up so that two-digit epochs occur, races, rollbacks, restarts) with retention 0..6 on both backends: after every call list_group_snapshots holds at most `retention` entries and exactly the (epoch, commit id) pairs of the client's most recent commits applied through process_message on its current branch; with a 1 s time-to-live a SQLite client restarted 2 s later comes up with no snapshot. Search, not proof.",
   note="The model of the expected queue is the harness's; TTL is exercised with one small value because it needs real sleeps.", ref="DESIGN.md §4 C20"),
 "C12": dict(engine="E3-crash", category="fault_enumeration", technique="fault injection at every storage tick of generated scenarios (in-process panic and abort() in a child process), differential against an uninterrupted twin on a copy of the database",
   text="For generated scenarios over every operation class named by the property, every storage tick k of the target call is enumerated: a fresh copy of the victim's database runs the call with the hook armed to die at k (unwinding in-process; in a share of the cases abort() in a child process, leaving hot journals), the file is reopened, must open and load every group, and re-offering the interrupted event plus all later events must end in the exact observable state of an uninterrupted twin (local calls: retry succeeds and records mirror MLS state; raw snapshot / rollback / relay transactions: the full dump equals the pre- or the post-state). Per scenario the enumeration of k is exhaustive; scenarios are sampled.",
   note="Assumes the tick hook marks every storage step (every with_connection call and every statement boundary of the explicit transactions); power loss / torn pages are out of scope. Crash points strictly between a call's first and last durable write are excused only for the listed non-atomicity findings (O17, O18, O31, O32).", ref="DESIGN.md §4 C12"),
 "C13": dict(engine="E1-world on SQLCipher + E3 ticks + threads", category="exploration", technique="property-based testing: canary search in every database/sidecar file over generated histories (at every storage tick and at rest), model-based constructor x file-state sequences, randomized concurrent first opens",
   text="(1) generated histories incl. rollbacks and 20-50 KB values on SQLCipher storage (caller key / mock keyring) under umask 000: canaries read back through the API are searched in several encodings in every sidecar file at every storage tick and in every file at rest; pragmas, file mode, one-bit-wrong key / no key refused without touching the file, right key shows the same data. (2) generated constructor sequences over {keyring A, keyring B, key 1, key 2, unencrypted} on {missing, empty, plain, encrypted} files (optionally below directories the library must create) against a small model: Ok/Err, refused opens change neither file nor keyring, entries are reused, directories 0700. (3) 2..16 threads opening one new path at once: no panic, one key, shared rows, normal open afterwards. Search, not proof.",
   note="The keyring is keyring-core's in-process mock; journals of single autocommitted statements are only visible where a tick falls inside an explicit transaction or at rest; racing openers may fail spuriously (not judged).", ref="DESIGN.md §4 C13"),
 "C06": dict(engine="E1-world + rogue toolkit + bindings", category="exploration", technique="structure-aware mutation-based property testing (outer event fields; inner MLS bytes re-encrypted under the right secret; key-package fields; junk arguments through the bindings) with a before/after fingerprint oracle and panic detection",
   text="(1) generated world histories in which members mutate events they can open (22 mutation kinds from the wrapper's kind/timestamp/tag down to bit flips and clear framing-header edits behind the NIP-44 layer) and hand them to members in every state; every refused hand-over must leave all groups of that client identical; panics are violations. (2) one-field mutations of valid key-package events through parse_key_package / add_members. (3) call sequences over every exported mdk-uniffi method with junk strings and byte vectors: no panic. A coverage-guided libFuzzer campaign over the same entry points complements this (see /verif/fuzz). Search, not proof.",
   note="Only refused results are judged (accepted mutants are other properties' business); OpenMLS-internal ratchet state is not observable; the rollback-before-validation behaviour is listed finding O15.", ref="DESIGN.md §4 C06"),
 "C14": dict(engine="log/error capture layer over E1-world, E3-crash and the invitation world", category="exploration", technique="property-based testing with a needle search (secrets and identifiers read back through the API, four encodings) over every captured tracing record, error text and result Debug of generated histories and hostile inputs",
   text="The generated histories and hostile inputs of C01..C07, the crash-recovery runs of C12 and the invitation histories of C16 run under a capture of every tracing record (TRACE and up). MLS group ids, Nostr group ids ever in force, exporter secrets, image key / nonce / upload seed and database keys, in raw / hex / base64 / Rust byte-list form, are searched in every record of the mdk crates' targets, in Display and Debug of every error, in Debug of every processing result and of the secret-holding types. Search, not proof.",
   note="Needles are read back through the API after each step, so a value logged before the harness could know it is still found; public data (event ids, member public keys, relay URLs) is not a needle.", ref="DESIGN.md §4 C14"),
}

checks = []
for pid in sorted(CHECKS):
    c = CHECKS[pid]
    checks.append({
        "property_id": pid,
        "quick_cmd": f"./check {pid} quick",
        "thorough_cmd": f"./check {pid} thorough",
        "evidence_file": f"/verif/evidence/{pid}.json",
        "replay_cmd_template": f"./check {pid} --replay {{path}}",
        "engine": c["engine"],
        "level_claimed": {"category": c["category"], "text": c["text"], "design_ref": c["ref"]},
        "level_note": c["note"],
        "technique": c["technique"],
    })

all_ids = [json.loads(l)["id"] for l in open(os.path.join(root, "properties.jsonl"))]
NOT_YET = "check not built yet in this session; the design in DESIGN.md §4 applies and the property is expected to be claimed later"
manifest = {
    "version": 1,
    "setup_cmd": "cd /verif/harness && CARGO_NET_OFFLINE=true cargo build --release --offline",
    "hooks": {
        "guard": "cargo feature `verif-hooks` (crates mdk-core and mdk-sqlite-storage)",
        "enable": "the harness crate /verif/harness depends on /repo/crates/* by path with features [\"verif-hooks\"] (plus the existing features mip04 and debug-examples on mdk-core); ./check rebuilds it incrementally from /repo's working tree before every run",
        "baseline_off_cmd": "cd /repo && cargo test --workspace --no-fail-fast --offline",
        "source_commits": hook_commits(),
        "add_only": True,
    },
    "engines": [
        {"name": "E2-storemodel", "path": "/verif/harness/src/storemodel.rs", "serves_properties": ["C09", "C10", "C18"], "kind_free_text": "reference model of the storage contract + three-way differential over generated call sequences"},
        {"name": "E3-crash", "path": "/verif/harness/src/props/c12.rs", "serves_properties": ["C12"], "kind_free_text": "storage-tick fault enumeration with twin differential; in-process unwinding and abort() in a child process"},
        {"name": "E1-world", "path": "/verif/harness/src/world.rs", "serves_properties": ["C01", "C02", "C03", "C04", "C05", "C07", "C08", "C11", "C16", "C18", "C20"], "kind_free_text": "simulated clients + relay + delivery scheduler over the real crates; proptest plans; reference replica"},
    ],
    "checks": checks,
    "notes": "exit 0 held / 1 violation (VIOLATION line) / 2 inconclusive or infrastructure. Known findings: /verif/known_findings.json (witness plans are re-run on every check and printed as KNOWN-FINDING lines).",
    "not_applicable": [{"property_id": p, "reason": NOT_YET} for p in all_ids if p not in CHECKS],
}
json.dump(manifest, open(os.path.join(root, "MANIFEST.json"), "w"), indent=1)
print("claimed:", ", ".join(sorted(CHECKS)))
