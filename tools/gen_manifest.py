#!/usr/bin/env python3
"""Regenerates /verif/MANIFEST.json from the table below (one entry per claimed property)."""
import json, os, subprocess
root = os.path.dirname(os.path.dirname(os.path.abspath(__file__)))

def hook_commits():
    try:
        out = subprocess.check_output(["git", "-C", "/repo", "log", "--format=%h %s"], text=True)
        return [l.split()[0] for l in out.splitlines() if l.split(" ", 1)[1].startswith("verif-hooks")][::-1]
    except Exception:
        return []

CHECKS = {
 "C01": dict(engine="E1-world", category="exploration", technique="stateful property-based testing (proptest plans of member actions and deliveries) against a reference replica that walks the MIP-03 chain",
   text="Generated histories of member actions and per-member delivery schedules (causal and unrestricted, duplicates, both own-commit modes, both backends, retention 1..6) are executed on the real crates; after re-offering everything to a fixed point every member that is in the selected final roster must have exactly the reference replica's group state, must never have rolled back away from a selected state, and a member that stalls must sit exactly on a selected state for a reason listed in known_findings.json. Search, not proof.",
   note="Trusted: the harness's reference replica (an extra silent member of the real library) as the definition of the MIP-03 selection; bounded group size, plan length and fork depth; random event ids decide timestamp ties.", ref="DESIGN.md §4 C01"),
}

checks = []
for pid in sorted(CHECKS):
    c = CHECKS[pid]
    checks.append({
        "property_id": pid,
        "quick_cmd": f"./check {pid} quick",
        "thorough_cmd": f"./check {pid} thorough",
        "evidence_file": f"/verif/evidence/{pid}.json",
        "replay_cmd_template": f"./check {pid} --replay {{path}}",
        "engine": c["engine"],
        "level_claimed": {"category": c["category"], "text": c["text"], "design_ref": c["ref"]},
        "level_note": c["note"],
        "technique": c["technique"],
    })

all_ids = [json.loads(l)["id"] for l in open(os.path.join(root, "properties.jsonl"))]
NOT_YET = "check not built yet in this session; the design in DESIGN.md §4 applies and the property is expected to be claimed later"
manifest = {
    "version": 1,
    "setup_cmd": "cd /verif/harness && CARGO_NET_OFFLINE=true cargo build --release --offline",
    "hooks": {
        "guard": "cargo feature `verif-hooks` (crates mdk-core and mdk-sqlite-storage)",
        "enable": "the harness crate /verif/harness depends on /repo/crates/* by path with features [\"verif-hooks\"] (plus the existing features mip04 and debug-examples on mdk-core); ./check rebuilds it incrementally from /repo's working tree before every run",
        "baseline_off_cmd": "cd /repo && cargo test --workspace --no-fail-fast --offline",
        "source_commits": hook_commits(),
        "add_only": True,
    },
    "engines": [
        {"name": "E1-world", "path": "/verif/harness/src/world.rs", "serves_properties": ["C01"], "kind_free_text": "simulated clients + relay + delivery scheduler over the real crates; proptest plans; reference replica"},
    ],
    "checks": checks,
    "notes": "exit 0 held / 1 violation (VIOLATION line) / 2 inconclusive or infrastructure. Known findings: /verif/known_findings.json (witness plans are re-run on every check and printed as KNOWN-FINDING lines).",
    "not_applicable": [{"property_id": p, "reason": NOT_YET} for p in all_ids if p not in CHECKS],
}
json.dump(manifest, open(os.path.join(root, "MANIFEST.json"), "w"), indent=1)
print("claimed:", ", ".join(sorted(CHECKS)))
