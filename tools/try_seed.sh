#!/bin/bash
# try_seed.sh <seeded dir> <check id>...   applies seeded/<dir>/patch.diff to /repo, runs the checks (quick), restores /repo
D="/verif/seeded/$1"; shift
exec 8>/tmp/vcheck-repo.lock; flock 8   # nobody else builds against /repo while the change is applied (see ./check)
export VCHECK_REPO_LOCK_HELD=1
[ -z "$(git -C /repo status --porcelain)" ] || { echo "/repo not clean"; exit 2; }
git -C /repo apply "$D/patch.diff" || { echo "patch does not apply"; exit 2; }
for id in "$@"; do
  out=$(VCHECK_NO_FUZZ=1 VCHECK_NO_EVIDENCE=1 /verif/check "$id" quick ${SEED:+--seed $SEED} ${CASES:+--cases $CASES} ${NOREG:+--no-regress} 2>/dev/null)
  rc=$?
  echo "== $id exit $rc: $(echo "$out" | grep -c '^VIOLATION') violation line(s)"
  echo "$out" | grep "^violated clause" | cut -c1-260 | sort | uniq -c | sort -rn | head -4
  echo "$out" | grep "^regression plan" | cut -c1-200 | head -2
done
git -C /repo checkout -- . ; git -C /repo status --porcelain | head -3
rm -rf /verif/replays
