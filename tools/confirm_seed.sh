#!/bin/bash
# confirm_seed.sh <seeded id> <scratch worktree> <demo test command...>
# Confirms, in a scratch worktree of /repo, that (1) the demonstration passes on the unchanged tree, (2) fails
# with seeded/<id>/patch.diff applied, (3) the repository's own test suite passes with the patch (demo absent).
set -u
ID=$1; WT=$2; shift 2
D=/verif/seeded/$ID
export CARGO_TARGET_DIR=$WT/target CARGO_NET_OFFLINE=true
cd "$WT" || exit 2
git checkout -q -- . && git clean -fdq -e target -e out
git apply "$D/demo.patch" || { echo "demo does not apply"; exit 2; }
"$@" > "$WT/confirm-demo-clean.log" 2>&1; a=$?
git apply "$D/patch.diff" || { echo "patch does not apply"; exit 2; }
"$@" > "$WT/confirm-demo-patched.log" 2>&1; b=$?
git apply -R "$D/demo.patch"; git clean -fdq -e target -e out -e 'confirm-*.log'
cargo test --workspace --no-fail-fast --offline > "$WT/confirm-suite.log" 2>&1; c=$?
passed=$(grep -h "^test result" "$WT/confirm-suite.log" | awk '{p+=$4; f+=$6} END {print p" passed, "f" failed"}')
echo "$ID: demo on unchanged tree exit $a; demo with patch exit $b ($(grep -h -m1 "panicked at\|assertion" "$WT/confirm-demo-patched.log" | cut -c1-120)); suite with patch exit $c ($passed)"
git checkout -q -- .
