#!/usr/bin/env python3
"""fuzz_tier.py <property id> <target> <runs> <seed>
Runs a bounded libFuzzer campaign (fresh corpus = committed seeds) and merges its statistics into
/verif/evidence/<id>.json. Exit 0 clean, 1 crash (prints the VIOLATION line), 2 infrastructure."""
import json, os, re, shutil, subprocess, sys, tempfile
pid, target, runs, seed = sys.argv[1], sys.argv[2], int(sys.argv[3]), int(sys.argv[4])
root = os.environ.get("VERIF_ROOT", "/verif")
seeds = os.path.join(root, "fuzz", "seeds", target)
shm = "/dev/shm" if os.path.isdir("/dev/shm") else tempfile.gettempdir()
corpus = tempfile.mkdtemp(prefix=f"vcheck-fuzz-{target}-", dir=shm)
art_dir = os.path.join(root, "replays", pid)
os.makedirs(art_dir, exist_ok=True)
cmd = ["cargo", "+nightly", "fuzz", "run", "--fuzz-dir", os.path.join(root, "fuzz"), target, corpus, seeds, "--",
       f"-runs={runs}", f"-seed={seed if seed else 1}", "-len_control=0", "-max_len=4096", "-print_final_stats=1",
       f"-artifact_prefix={art_dir}/fuzz-{target}-", "-rss_limit_mb=4096"]
env = dict(os.environ, CARGO_NET_OFFLINE="true")
try:
    p = subprocess.run(cmd, cwd=os.path.join(root, "harness"), env=env, stdout=subprocess.PIPE, stderr=subprocess.STDOUT, text=True, timeout=3600)
    out = p.stdout
    rc = p.returncode
except subprocess.TimeoutExpired as e:
    out = (e.stdout or "") if isinstance(e.stdout, str) else ""
    rc = 124
finally:
    pass
units = re.search(r"stat::number_of_executed_units:\s*(\d+)", out)
newu = re.search(r"stat::new_units_added:\s*(\d+)", out)
cov = re.findall(r"cov: (\d+)", out)
stats = {"target": target, "runs_requested": runs, "executed_units": int(units.group(1)) if units else 0,
         "new_units_added": int(newu.group(1)) if newu else 0, "final_edge_coverage": int(cov[-1]) if cov else 0,
         "seed_files": len(os.listdir(seeds)) if os.path.isdir(seeds) else 0, "exit_code": rc}
shutil.rmtree(corpus, ignore_errors=True)
ev_path = os.path.join(root, "evidence", f"{pid}.json")
try:
    ev = json.load(open(ev_path))
    ev["coverage"].setdefault("fuzz_campaigns", []).append(stats)
    crash = None
    m = re.search(r"Test unit written to (\S+)", out)
    if rc not in (0, 124) and m:
        crash = m.group(1)
        ev["violations"] = ev.get("violations", 0) + 1
    json.dump(ev, open(ev_path, "w"), indent=1)
except Exception as e:
    print("cannot merge fuzz statistics into the evidence file:", e)
    sys.exit(2)
print(f"{pid} fuzz {target}: {stats['executed_units']} executions, edge coverage {stats['final_edge_coverage']}, exit {rc}")
if rc == 0:
    sys.exit(0)
if rc == 124:
    print("fuzz campaign hit its wall-clock limit (inconclusive)")
    sys.exit(2)
if crash:
    tail = "\n".join(out.splitlines()[-25:])
    print(tail)
    print(f"VIOLATION property={pid} replay={crash}")
    sys.exit(1)
print(out[-3000:])
print("fuzz run failed without an artifact (infrastructure)")
sys.exit(2)
