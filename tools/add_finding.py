#!/usr/bin/env python3
"""add_finding.py <property> <key> <replay.json> <what...>  — adds/replaces an open finding in known_findings.json"""
import json, sys, os
root = os.path.dirname(os.path.dirname(os.path.abspath(__file__)))
path = os.path.join(root, "known_findings.json")
prop, key, replay = sys.argv[1:4]
what = " ".join(sys.argv[4:])
r = json.load(open(replay))
try:
    kf = json.load(open(path))
except FileNotFoundError:
    kf = {"findings": [], "fixed": []}
kf["findings"] = [f for f in kf["findings"] if not (f["property"] == prop and f["key"] == key)]
kf["findings"].append({"property": prop, "key": key, "status": "open", "what": what,
                       "clause": r["clause"], "witness": r["case"], "witness_detail": r.get("detail", "")})
kf["findings"].sort(key=lambda f: (f["property"], f["key"]))
json.dump(kf, open(path, "w"), indent=1)
print("added", prop, key, r["clause"])
